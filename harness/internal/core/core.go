// Package core: run context shared by all property checks: sharding, evidence,
// violations with finding keys, known findings, replay.
package core

import (
	"encoding/json"
	"fmt"
	"hash/fnv"
	"math/rand"
	"os"
	"path/filepath"
	"runtime/debug"
	"sort"
	"strings"
	"sync"
	"time"
)

// Root of the verification tree.
var Root = func() string {
	if v := os.Getenv("VERIF_ROOT"); v != "" {
		return v
	}
	return "/verif"
}()

type Violation struct {
	Key    string `json:"key"`
	What   string `json:"what"`
	Replay any    `json:"replay,omitempty"`
	Case   int64  `json:"case"`
}

// Partial is what one shard (child process) reports.
type Partial struct {
	Evals      int64               `json:"evals"`
	Distinct   []uint64            `json:"distinct"`
	Samples    []any               `json:"samples"`
	Violations []Violation         `json:"violations"`
	Counters   map[string]int64    `json:"counters"`
	Sets       map[string][]string `json:"sets"`
	Inconcl    int64               `json:"inconclusive"`
	Notes      []string            `json:"notes"`
}

// Run is the per-shard run context handed to a check.
type Run struct {
	ID           string
	Tier         string // quick | thorough
	Seed         int64
	Shard        int
	Shards       int
	Only         int64  // replay: only this case index (-1 = all)
	Build        string // default | purego | race ...
	Work         string // scratch directory of this run (under /verif/.bin/work/<ID>)
	caseLog      *os.File
	caseLogBytes int64

	mu         sync.Mutex
	evals      int64
	distinct   map[uint64]struct{}
	samples    []any
	viol       []Violation
	counters   map[string]int64
	sets       map[string]map[string]struct{}
	inconcl    int64
	notes      []string
	cur        int64
	MaxSamples int
}

func NewRun(id, tier string, seed int64, shard, shards int) *Run {
	return &Run{ID: id, Tier: tier, Seed: seed, Shard: shard, Shards: shards, Only: -1,
		distinct: map[uint64]struct{}{}, counters: map[string]int64{}, sets: map[string]map[string]struct{}{},
		MaxSamples: 6}
}

func (r *Run) Quick() bool { return r.Tier != "thorough" }

// Pick returns q in the quick tier and t in the thorough tier.
func (r *Run) Pick(q, t int) int {
	if r.Quick() {
		return q
	}
	return t
}

// Take reports whether case index i belongs to this shard (and replay filter).
func (r *Run) Take(i int64) bool {
	if r.Only >= 0 {
		if i != r.Only {
			return false
		}
	} else if r.Shards > 1 && int(i%int64(r.Shards)) != r.Shard {
		return false
	}
	r.mu.Lock()
	r.cur = i
	r.mu.Unlock()
	return true
}

// Rand returns a PRNG that depends only on (seed, property, case index, salt).
func (r *Run) Rand(i int64, salt string) *rand.Rand {
	h := fnv.New64a()
	fmt.Fprintf(h, "%d|%s|%d|%s", r.Seed, r.ID, i, salt)
	return rand.New(rand.NewSource(int64(h.Sum64())))
}

func Hash(parts ...any) uint64 {
	h := fnv.New64a()
	for _, p := range parts {
		fmt.Fprintf(h, "%v\x00", p)
	}
	return h.Sum64()
}

func (r *Run) Eval()         { r.mu.Lock(); r.evals++; r.mu.Unlock() }
func (r *Run) Evals(n int64) { r.mu.Lock(); r.evals += n; r.mu.Unlock() }

// NonTrivial records a distinct non-trivial case fingerprint.
func (r *Run) NonTrivial(parts ...any) {
	h := Hash(parts...)
	r.mu.Lock()
	r.distinct[h] = struct{}{}
	r.mu.Unlock()
}

func (r *Run) Sample(v any) {
	r.mu.Lock()
	if len(r.samples) < r.MaxSamples {
		r.samples = append(r.samples, v)
	}
	r.mu.Unlock()
}

func (r *Run) Count(name string, n int64) { r.mu.Lock(); r.counters[name] += n; r.mu.Unlock() }

func (r *Run) SetAdd(name, v string) {
	r.mu.Lock()
	m := r.sets[name]
	if m == nil {
		m = map[string]struct{}{}
		r.sets[name] = m
	}
	if len(m) < 200000 {
		m[v] = struct{}{}
	}
	r.mu.Unlock()
}

func (r *Run) Inconclusive(why string) {
	r.mu.Lock()
	r.inconcl++
	if len(r.notes) < 20 {
		r.notes = append(r.notes, "inconclusive: "+why)
	}
	r.mu.Unlock()
}

func (r *Run) Note(s string) {
	r.mu.Lock()
	if len(r.notes) < 40 {
		r.notes = append(r.notes, s)
	}
	r.mu.Unlock()
}

// Violation records a violation with a finding key "<ID>:<site>:<class>".
func (r *Run) Violation(key, what string, replay any) {
	if !strings.HasPrefix(key, r.ID+":") {
		key = r.ID + ":" + key
	}
	r.mu.Lock()
	defer r.mu.Unlock()
	n := 0
	for _, v := range r.viol {
		if v.Key == key {
			n++
		}
	}
	if n >= 3 {
		r.counters["violations_suppressed_same_key"]++
		return
	}
	if len(what) > 4000 {
		what = what[:4000] + "...(truncated)"
	}
	r.viol = append(r.viol, Violation{Key: key, What: what, Replay: replay, Case: r.cur})
}

// Guard runs f and converts a panic into a violation with the given key.
func (r *Run) Guard(key string, replay any, f func()) (panicked bool) {
	defer func() {
		if p := recover(); p != nil {
			panicked = true
			st := string(debug.Stack())
			r.Violation(key+":panic", fmt.Sprintf("panic: %v\n%s", p, trimStack(st)), replay)
		}
	}()
	f()
	return false
}

// Recover runs f and returns the panic value+stack ("" if none).
func Recover(f func()) (msg string) {
	defer func() {
		if p := recover(); p != nil {
			msg = fmt.Sprintf("panic: %v\n%s", p, trimStack(string(debug.Stack())))
		}
	}()
	f()
	return ""
}

func trimStack(s string) string {
	lines := strings.Split(s, "\n")
	if len(lines) > 40 {
		lines = lines[:40]
	}
	return strings.Join(lines, "\n")
}

func (r *Run) Partial() *Partial {
	r.mu.Lock()
	defer r.mu.Unlock()
	p := &Partial{Evals: r.evals, Samples: r.samples, Violations: r.viol, Counters: r.counters,
		Sets: map[string][]string{}, Inconcl: r.inconcl, Notes: r.notes}
	for h := range r.distinct {
		p.Distinct = append(p.Distinct, h)
	}
	for k, m := range r.sets {
		for v := range m {
			p.Sets[k] = append(p.Sets[k], v)
		}
		sort.Strings(p.Sets[k])
	}
	return p
}

// ---- aggregation (parent) -------------------------------------------------

type Known struct {
	Property string `json:"property"`
	Key      string `json:"key"`
	Status   string `json:"status"` // known | fixed
	Commit   string `json:"commit,omitempty"`
	What     string `json:"what"`
}

func LoadKnown() []Known {
	b, err := os.ReadFile(filepath.Join(Root, "known_findings.json"))
	if err != nil {
		return nil
	}
	var doc struct {
		Findings []Known `json:"findings"`
	}
	if err := json.Unmarshal(b, &doc); err != nil {
		fmt.Fprintln(os.Stderr, "known_findings.json: ", err)
		return nil
	}
	return doc.Findings
}

type Meta struct {
	ID          string
	Tier        string
	Seed        int64
	Level       string
	Rule        string
	Assumptions []string
	Exhaustive  bool
	MinDistinct int
	Wall        time.Duration
	Extra       map[string]any
}

// Finish merges partials, writes evidence + replay files, prints the verdict lines and
// returns the process exit code.
func Finish(m Meta, parts []*Partial, aborted []Violation) int {
	var evals, inconcl int64
	distinct := map[uint64]struct{}{}
	var samples []any
	counters := map[string]int64{}
	sets := map[string]map[string]struct{}{}
	var viol []Violation
	var notes []string
	for _, p := range parts {
		if p == nil {
			continue
		}
		evals += p.Evals
		inconcl += p.Inconcl
		for _, h := range p.Distinct {
			distinct[h] = struct{}{}
		}
		for _, s := range p.Samples {
			if len(samples) < 8 {
				samples = append(samples, s)
			}
		}
		for k, v := range p.Counters {
			counters[k] += v
		}
		for k, vs := range p.Sets {
			mm := sets[k]
			if mm == nil {
				mm = map[string]struct{}{}
				sets[k] = mm
			}
			for _, v := range vs {
				mm[v] = struct{}{}
			}
		}
		viol = append(viol, p.Violations...)
		notes = append(notes, p.Notes...)
	}
	viol = append(viol, aborted...)

	known := map[string]Known{}
	for _, k := range LoadKnown() {
		if k.Property == m.ID && k.Status == "known" {
			known[k.Key] = k
		}
	}
	// group by key
	byKey := map[string][]Violation{}
	var keys []string
	for _, v := range viol {
		if _, ok := byKey[v.Key]; !ok {
			keys = append(keys, v.Key)
		}
		byKey[v.Key] = append(byKey[v.Key], v)
	}
	sort.Strings(keys)
	nViol := 0
	knownHits := map[string]int{}
	var out []string
	replayDir := filepath.Join(Root, "replay", m.ID)
	for _, k := range keys {
		vs := byKey[k]
		if kf, ok := known[k]; ok {
			knownHits[k] = len(vs)
			out = append(out, fmt.Sprintf("KNOWN-FINDING: property=%s %s - %s", m.ID, firstLine(k), firstLine(kf.What)))
			continue
		}
		nViol++
		_ = os.MkdirAll(replayDir, 0o755)
		name := fmt.Sprintf("%016x.json", Hash(k))
		path := filepath.Join(replayDir, name)
		doc := map[string]any{"property": m.ID, "key": k, "tier": m.Tier, "seed": m.Seed, "case": vs[0].Case,
			"what": vs[0].What, "replay": vs[0].Replay, "occurrences": len(vs)}
		b, _ := json.MarshalIndent(doc, "", " ")
		_ = os.WriteFile(path, b, 0o644)
		out = append(out, fmt.Sprintf("VIOLATION property=%s replay=%s key=%s :: %s", m.ID, path, firstLine(k), firstLine(vs[0].What)))
	}

	cov := map[string]any{
		"evaluations":         evals,
		"distinct_nontrivial": len(distinct),
		"rule":                m.Rule,
		"samples":             samples,
		"inconclusive":        inconcl,
		"counters":            counters,
	}
	if m.Exhaustive {
		cov["exhaustive"] = true
	}
	setSizes := map[string]any{}
	for k, mm := range sets {
		var l []string
		for v := range mm {
			l = append(l, v)
		}
		sort.Strings(l)
		ent := map[string]any{"count": len(l)}
		if len(l) > 40 {
			ent["first"] = l[:40]
		} else {
			ent["values"] = l
		}
		setSizes[k] = ent
	}
	cov["observed_sets"] = setSizes
	if len(knownHits) > 0 {
		cov["known_finding_hits"] = knownHits
	}
	if len(notes) > 0 {
		if len(notes) > 30 {
			notes = notes[:30]
		}
		cov["notes"] = notes
	}
	for k, v := range m.Extra {
		cov[k] = v
	}
	if len(samples) == 0 {
		cov["samples"] = []any{"(no sample recorded)"}
	}
	ev := map[string]any{
		"property_id": m.ID, "tier": m.Tier, "seed": m.Seed, "level": m.Level,
		"coverage": cov, "assumptions": m.Assumptions, "wall_s": m.Wall.Seconds(), "violations": nViol,
	}
	verdict := "held"
	code := 0
	if nViol > 0 {
		verdict = "violated"
		code = 1
	} else if len(distinct) < max(2, m.MinDistinct) || evals == 0 {
		verdict = "inconclusive"
		code = 2
		out = append(out, fmt.Sprintf("INCONCLUSIVE property=%s observed too little: evaluations=%d distinct_nontrivial=%d (floor %d)", m.ID, evals, len(distinct), m.MinDistinct))
	}
	ev["verdict"] = verdict
	b, _ := json.MarshalIndent(ev, "", " ")
	_ = os.MkdirAll(filepath.Join(Root, "evidence"), 0o755)
	if err := os.WriteFile(filepath.Join(Root, "evidence", m.ID+".json"), b, 0o644); err != nil {
		fmt.Fprintln(os.Stderr, "write evidence:", err)
		if code == 0 {
			code = 2
		}
	}
	for _, l := range out {
		fmt.Println(l)
	}
	fmt.Printf("%s %s tier=%s seed=%d evaluations=%d distinct_nontrivial=%d violations=%d known=%d inconclusive=%d wall=%.1fs\n",
		m.ID, verdict, m.Tier, m.Seed, evals, len(distinct), nViol, len(knownHits), inconcl, m.Wall.Seconds())
	return code
}

func firstLine(s string) string {
	if i := strings.IndexByte(s, '\n'); i >= 0 {
		s = s[:i]
	}
	if len(s) > 300 {
		s = s[:300]
	}
	// verdict lines are parsed line by line: keep them printable ASCII
	b := []byte(s)
	for i, c := range b {
		if c < 0x20 || c > 0x7e {
			b[i] = '?'
		}
	}
	return string(b)
}

// CaseLog appends one line to this shard's case log with a plain write(2) *before* the case
// runs, so that a process abort can be attributed to the case (page-cache data survives).
func (r *Run) CaseLog(line string) {
	if r.Work == "" {
		return
	}
	if r.caseLog == nil {
		f, err := os.OpenFile(filepath.Join(r.Work, fmt.Sprintf("caselog-%s-%d.txt", r.Build, r.Shard)), os.O_CREATE|os.O_WRONLY|os.O_APPEND|os.O_TRUNC, 0o644)
		if err != nil {
			return
		}
		r.caseLog = f
	}
	if r.caseLogBytes > 64<<20 {
		// only the tail matters (the last "before" line identifies an aborting case): start over
		_ = r.caseLog.Truncate(0)
		_, _ = r.caseLog.Seek(0, 0)
		r.caseLogBytes = 0
	}
	n, _ := r.caseLog.WriteString(line + "\n")
	r.caseLogBytes += int64(n)
}
