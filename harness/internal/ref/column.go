package ref

import (
	"bytes"
	"encoding/binary"
	"fmt"
)

// Val is the logical value model, in terms of the wire representation:
//   - fixed-width leaf: B = the raw little-endian wire bytes of the value
//   - String/JSON/FixedString: B = the bytes
//   - Nullable: Null=true, or the inner value itself
//   - Array: L = elements; Tuple: L = elements; Map: L = pairs, each pair a Val with L=[key,value]
type Val struct {
	Null bool   `json:"null,omitempty"`
	B    []byte `json:"b,omitempty"`
	L    []Val  `json:"l,omitempty"`
	IsL  bool   `json:"isl,omitempty"` // distinguishes an empty list from an empty leaf
}

func Leaf(b []byte) Val { return Val{B: b} }
func List(l []Val) Val  { return Val{L: l, IsL: true} }

func (v Val) Equal(o Val) bool {
	if v.Null != o.Null {
		return false
	}
	if v.Null {
		return true
	}
	if v.IsL != o.IsL || len(v.L) != len(o.L) || !bytes.Equal(v.B, o.B) {
		return false
	}
	for i := range v.L {
		if !v.L[i].Equal(o.L[i]) {
			return false
		}
	}
	return true
}

func (v Val) String() string {
	if v.Null {
		return "NULL"
	}
	if v.IsL {
		s := "["
		for i, e := range v.L {
			if i > 0 {
				s += ","
			}
			if i >= 8 {
				s += fmt.Sprintf("…(%d)", len(v.L))
				break
			}
			s += e.String()
		}
		return s + "]"
	}
	if len(v.B) > 24 {
		return fmt.Sprintf("%x…(%d)", v.B[:24], len(v.B))
	}
	return fmt.Sprintf("%x", v.B)
}

// Zero returns the default value of a type (what a Nullable nests under NULL).
func Zero(t *Type) Val {
	switch t.Base {
	case "String", "JSON":
		return Leaf(nil)
	case "Array", "Map":
		return List(nil)
	case "Nullable":
		return Val{Null: true}
	case "LowCardinality":
		return Zero(t.Args[0])
	case "Tuple":
		var l []Val
		for _, a := range t.Args {
			l = append(l, Zero(a))
		}
		return List(l)
	case "Nothing":
		return Leaf([]byte{0})
	case "Enum8":
		return Leaf([]byte{byte(int8(t.Enum[0].Val))})
	case "Enum16":
		v := uint16(int16(t.Enum[0].Val))
		return Leaf([]byte{byte(v), byte(v >> 8)})
	}
	return Leaf(make([]byte, t.Width()))
}

// HasState reports whether the type writes a serialization state prefix.
func EncodeState(w *W, t *Type) {
	switch t.Base {
	case "LowCardinality":
		w.I64(1) // SharedDictionariesWithAdditionalKeys
		EncodeState(w, t.Args[0])
	case "JSON":
		w.U64(1) // string serialization
	case "Array", "Nullable", "Map", "Tuple":
		for _, a := range t.Args {
			EncodeState(w, a)
		}
	}
}

func DecodeState(r *R, t *Type) error {
	switch t.Base {
	case "LowCardinality":
		v, err := r.I64()
		if err != nil {
			return err
		}
		if v != 1 {
			return fmt.Errorf("ref: LowCardinality key serialization version %d", v)
		}
		return DecodeState(r, t.Args[0])
	case "JSON":
		v, err := r.U64()
		if err != nil {
			return err
		}
		if v != 1 {
			return fmt.Errorf("ref: JSON serialization version %d", v)
		}
	case "Array", "Nullable", "Map", "Tuple":
		for _, a := range t.Args {
			if err := DecodeState(r, a); err != nil {
				return err
			}
		}
	}
	return nil
}

// LCOpts controls the reference LowCardinality encoder (server side).
type LCOpts struct {
	KeyWidth  int   // 0 = minimal; 1,2,4,8 forced
	ExtraMeta int64 // extra meta bits to set
}

const (
	lcHasAdditionalKeys = 1 << 9
	lcNeedUpdateDict    = 1 << 10
)

// EncodeColumn writes the column body (no state prefix).
func EncodeColumn(w *W, t *Type, vals []Val, lc *LCOpts) {
	switch t.Base {
	case "String", "JSON":
		for _, v := range vals {
			w.Bytes(v.B)
		}
	case "Array":
		var flat []Val
		for _, v := range vals {
			flat = append(flat, v.L...)
			w.U64(uint64(len(flat)))
		}
		EncodeColumn(w, t.Args[0], flat, lc)
	case "Map":
		if len(vals) == 0 {
			return
		}
		var ks, vs []Val
		for _, v := range vals {
			for _, p := range v.L {
				ks = append(ks, p.L[0])
				vs = append(vs, p.L[1])
			}
			w.U64(uint64(len(ks)))
		}
		EncodeColumn(w, t.Args[0], ks, lc)
		EncodeColumn(w, t.Args[1], vs, lc)
	case "Nullable":
		inner := make([]Val, len(vals))
		for i, v := range vals {
			if v.Null {
				w.U8(1)
				inner[i] = Zero(t.Args[0])
			} else {
				w.U8(0)
				inner[i] = v
			}
		}
		EncodeColumn(w, t.Args[0], inner, lc)
	case "Tuple":
		for i, a := range t.Args {
			col := make([]Val, len(vals))
			for j, v := range vals {
				col[j] = v.L[i]
			}
			EncodeColumn(w, a, col, lc)
		}
	case "LowCardinality":
		if len(vals) == 0 {
			return
		}
		var dict []Val
		keys := make([]int, len(vals))
		idx := map[string]int{}
		for i, v := range vals {
			k := valKey(v)
			j, ok := idx[k]
			if !ok {
				j = len(dict)
				idx[k] = j
				dict = append(dict, v)
			}
			keys[i] = j
		}
		kw := 1
		switch {
		case len(dict) > 1<<32:
			kw = 8
		case len(dict) > 1<<16:
			kw = 4
		case len(dict) > 1<<8:
			kw = 2
		}
		var extra int64
		if lc != nil {
			if lc.KeyWidth > kw {
				kw = lc.KeyWidth
			}
			extra = lc.ExtraMeta
		}
		kt := map[int]int64{1: 0, 2: 1, 4: 2, 8: 3}[kw]
		w.I64(lcHasAdditionalKeys | lcNeedUpdateDict | kt | extra)
		w.I64(int64(len(dict)))
		EncodeColumn(w, t.Args[0], dict, lc)
		w.I64(int64(len(keys)))
		for _, k := range keys {
			switch kw {
			case 1:
				w.U8(uint8(k))
			case 2:
				w.U16(uint16(k))
			case 4:
				w.U32(uint32(k))
			default:
				w.U64(uint64(k))
			}
		}
	case "Point":
		for _, v := range vals {
			w.Raw(v.B[:8])
		}
		for _, v := range vals {
			w.Raw(v.B[8:16])
		}
	default:
		wd := t.Width()
		for _, v := range vals {
			if len(v.B) != wd {
				panic(fmt.Sprintf("ref: value of %d bytes for %s (width %d)", len(v.B), t.Raw, wd))
			}
			w.Raw(v.B)
		}
	}
}

func valKey(v Val) string {
	if v.Null {
		return "N"
	}
	return "V" + string(v.B)
}

const maxRows = 1 << 28

// DecodeColumn reads the column body (no state prefix) of `rows` rows.
func DecodeColumn(r *R, t *Type, rows int) ([]Val, error) {
	if rows < 0 || rows > maxRows {
		return nil, fmt.Errorf("ref: bad row count %d", rows)
	}
	out := make([]Val, 0, min(rows, 1<<16))
	switch t.Base {
	case "String", "JSON":
		for i := 0; i < rows; i++ {
			b, err := r.StrBytes()
			if err != nil {
				return nil, err
			}
			out = append(out, Leaf(append([]byte(nil), b...)))
		}
	case "Array", "Map":
		if t.Base == "Map" && rows == 0 {
			return out, nil
		}
		offs := make([]uint64, rows)
		var prev uint64
		for i := range offs {
			o, err := r.U64()
			if err != nil {
				return nil, err
			}
			if o < prev {
				return nil, fmt.Errorf("ref: non-monotonic offset %d after %d", o, prev)
			}
			if o > maxRows {
				return nil, fmt.Errorf("ref: offset %d too large", o)
			}
			offs[i], prev = o, o
		}
		if t.Base == "Array" {
			flat, err := DecodeColumn(r, t.Args[0], int(prev))
			if err != nil {
				return nil, err
			}
			var s uint64
			for _, o := range offs {
				out = append(out, List(append([]Val(nil), flat[s:o]...)))
				s = o
			}
		} else {
			ks, err := DecodeColumn(r, t.Args[0], int(prev))
			if err != nil {
				return nil, err
			}
			vs, err := DecodeColumn(r, t.Args[1], int(prev))
			if err != nil {
				return nil, err
			}
			var s uint64
			for _, o := range offs {
				var pairs []Val
				for j := s; j < o; j++ {
					pairs = append(pairs, List([]Val{ks[j], vs[j]}))
				}
				out = append(out, List(pairs))
				s = o
			}
		}
	case "Nullable":
		mask, err := r.Take(rows)
		if err != nil {
			return nil, err
		}
		mask = append([]byte(nil), mask...)
		inner, err := DecodeColumn(r, t.Args[0], rows)
		if err != nil {
			return nil, err
		}
		for i, m := range mask {
			if m > 1 {
				return nil, fmt.Errorf("ref: bad null mask byte %d", m)
			}
			if m == 1 {
				out = append(out, Val{Null: true})
			} else {
				out = append(out, inner[i])
			}
		}
	case "Tuple":
		cols := make([][]Val, len(t.Args))
		for i, a := range t.Args {
			c, err := DecodeColumn(r, a, rows)
			if err != nil {
				return nil, err
			}
			cols[i] = c
		}
		for j := 0; j < rows; j++ {
			l := make([]Val, len(cols))
			for i := range cols {
				l[i] = cols[i][j]
			}
			out = append(out, List(l))
		}
	case "LowCardinality":
		if rows == 0 {
			return out, nil
		}
		meta, err := r.I64()
		if err != nil {
			return nil, err
		}
		if meta&lcHasAdditionalKeys == 0 {
			return nil, fmt.Errorf("ref: LowCardinality without additional keys (meta %x)", meta)
		}
		if meta&(1<<8) != 0 {
			return nil, fmt.Errorf("ref: global dictionary not supported")
		}
		kt := meta & 0xff
		if kt > 3 {
			return nil, fmt.Errorf("ref: bad key type %d", kt)
		}
		n, err := r.I64()
		if err != nil {
			return nil, err
		}
		if n < 0 || n > maxRows {
			return nil, fmt.Errorf("ref: bad dictionary size %d", n)
		}
		dict, err := DecodeColumn(r, t.Args[0], int(n))
		if err != nil {
			return nil, err
		}
		kn, err := r.I64()
		if err != nil {
			return nil, err
		}
		if kn != int64(rows) {
			return nil, fmt.Errorf("ref: LowCardinality has %d keys for %d rows", kn, rows)
		}
		kw := 1 << kt
		kb, err := r.Take(rows * kw)
		if err != nil {
			return nil, err
		}
		for i := 0; i < rows; i++ {
			var k uint64
			switch kw {
			case 1:
				k = uint64(kb[i])
			case 2:
				k = uint64(binary.LittleEndian.Uint16(kb[i*2:]))
			case 4:
				k = uint64(binary.LittleEndian.Uint32(kb[i*4:]))
			default:
				k = binary.LittleEndian.Uint64(kb[i*8:])
			}
			if k >= uint64(n) {
				return nil, fmt.Errorf("ref: key %d out of dictionary of %d", k, n)
			}
			out = append(out, dict[k])
		}
	case "Point":
		b, err := r.Take(rows * 16)
		if err != nil {
			return nil, err
		}
		for i := 0; i < rows; i++ {
			v := make([]byte, 16)
			copy(v[:8], b[i*8:i*8+8])
			copy(v[8:], b[rows*8+i*8:rows*8+i*8+8])
			out = append(out, Leaf(v))
		}
	default:
		wd := t.Width()
		if wd == 0 {
			return nil, fmt.Errorf("ref: unsupported type %q", t.Raw)
		}
		b, err := r.Take(rows * wd)
		if err != nil {
			return nil, err
		}
		if t.Base == "Bool" {
			for k, x := range b {
				if x > 1 {
					return nil, fmt.Errorf("ref: byte %#x is not a Bool (row %d)", x, k)
				}
			}
		}
		for i := 0; i < rows; i++ {
			out = append(out, Leaf(append([]byte(nil), b[i*wd:(i+1)*wd]...)))
		}
	}
	return out, nil
}
