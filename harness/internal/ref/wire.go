// Package ref is an independent reference implementation of the parts of the ClickHouse
// native protocol that the checks need.  It shares no code with ch-go's proto/compress
// packages; it is written from the protocol description (Core/ProtocolDefines.h,
// ClientInfo.cpp, NativeWriter/NativeReader, CompressedWriteBuffer).
package ref

import (
	"encoding/binary"
	"errors"
	"fmt"
)

// ErrShort: the input ended inside the value (more bytes are needed).
var ErrShort = errors.New("ref: short input")

// W is a byte writer.
type W struct{ B []byte }

func (w *W) UVarint(x uint64) {
	for x >= 0x80 {
		w.B = append(w.B, byte(x)|0x80)
		x >>= 7
	}
	w.B = append(w.B, byte(x))
}
func (w *W) Str(s string)   { w.UVarint(uint64(len(s))); w.B = append(w.B, s...) }
func (w *W) Bytes(s []byte) { w.UVarint(uint64(len(s))); w.B = append(w.B, s...) }
func (w *W) Raw(b []byte)   { w.B = append(w.B, b...) }
func (w *W) U8(x uint8)     { w.B = append(w.B, x) }
func (w *W) Bool(x bool) {
	if x {
		w.B = append(w.B, 1)
	} else {
		w.B = append(w.B, 0)
	}
}
func (w *W) U16(x uint16) { w.B = binary.LittleEndian.AppendUint16(w.B, x) }
func (w *W) U32(x uint32) { w.B = binary.LittleEndian.AppendUint32(w.B, x) }
func (w *W) U64(x uint64) { w.B = binary.LittleEndian.AppendUint64(w.B, x) }
func (w *W) I32(x int32)  { w.U32(uint32(x)) }
func (w *W) I64(x int64)  { w.U64(uint64(x)) }

// R is a reader over a byte slice.
type R struct {
	B []byte
	P int
}

func (r *R) Left() int { return len(r.B) - r.P }

func (r *R) UVarint() (uint64, error) {
	var x uint64
	var s uint
	for i := 0; ; i++ {
		if r.P >= len(r.B) {
			return 0, ErrShort
		}
		b := r.B[r.P]
		r.P++
		if i == 9 && b > 1 {
			return 0, fmt.Errorf("ref: uvarint overflow")
		}
		if b < 0x80 {
			return x | uint64(b)<<s, nil
		}
		x |= uint64(b&0x7f) << s
		s += 7
		if i >= 9 {
			return 0, fmt.Errorf("ref: uvarint too long")
		}
	}
}

func (r *R) Take(n int) ([]byte, error) {
	if n < 0 {
		return nil, fmt.Errorf("ref: negative length")
	}
	if r.Left() < n {
		r.P = len(r.B)
		return nil, ErrShort
	}
	b := r.B[r.P : r.P+n]
	r.P += n
	return b, nil
}

const maxStr = 1 << 30

func (r *R) StrBytes() ([]byte, error) {
	n, err := r.UVarint()
	if err != nil {
		return nil, err
	}
	if n > maxStr {
		return nil, fmt.Errorf("ref: string length %d too large", n)
	}
	return r.Take(int(n))
}

func (r *R) Str() (string, error) {
	b, err := r.StrBytes()
	return string(b), err
}

func (r *R) U8() (uint8, error) {
	b, err := r.Take(1)
	if err != nil {
		return 0, err
	}
	return b[0], nil
}

func (r *R) Bool() (bool, error) {
	b, err := r.U8()
	if err != nil {
		return false, err
	}
	if b > 1 {
		return false, fmt.Errorf("ref: bad bool %d", b)
	}
	return b == 1, nil
}

func (r *R) U16() (uint16, error) {
	b, err := r.Take(2)
	if err != nil {
		return 0, err
	}
	return binary.LittleEndian.Uint16(b), nil
}
func (r *R) U32() (uint32, error) {
	b, err := r.Take(4)
	if err != nil {
		return 0, err
	}
	return binary.LittleEndian.Uint32(b), nil
}
func (r *R) U64() (uint64, error) {
	b, err := r.Take(8)
	if err != nil {
		return 0, err
	}
	return binary.LittleEndian.Uint64(b), nil
}
func (r *R) I32() (int32, error) { v, err := r.U32(); return int32(v), err }
func (r *R) I64() (int64, error) { v, err := r.U64(); return int64(v), err }
