package ref

import (
	"fmt"
	"strconv"
	"strings"
)

// Type is a parsed ClickHouse type.
type Type struct {
	Base  string   // Int8, String, Array, ...
	Args  []*Type  // Array/Nullable/LowCardinality: 1, Map: 2, Tuple: n
	Names []string // Tuple element names ("" when unnamed)
	N     int      // FixedString size / DateTime64 precision / Decimal precision
	Scale int      // Decimal scale
	TZ    string
	HasTZ bool
	Enum  []EnumItem
	Raw   string // the original text
}

type EnumItem struct {
	Name string
	Val  int
}

// splitArgs splits s at top-level commas, honouring parentheses and single quotes.
func splitArgs(s string) ([]string, error) {
	var out []string
	depth, start := 0, 0
	inq := false
	for i := 0; i < len(s); i++ {
		c := s[i]
		if inq {
			if c == '\\' {
				i++
			} else if c == '\'' {
				inq = false
			}
			continue
		}
		switch c {
		case '\'':
			inq = true
		case '(':
			depth++
		case ')':
			depth--
			if depth < 0 {
				return nil, fmt.Errorf("unbalanced )")
			}
		case ',':
			if depth == 0 {
				out = append(out, strings.TrimSpace(s[start:i]))
				start = i + 1
			}
		}
	}
	if inq || depth != 0 {
		return nil, fmt.Errorf("unbalanced type %q", s)
	}
	out = append(out, strings.TrimSpace(s[start:]))
	return out, nil
}

func unquote(s string) (string, error) {
	s = strings.TrimSpace(s)
	if len(s) < 2 || s[0] != '\'' || s[len(s)-1] != '\'' {
		return "", fmt.Errorf("not a quoted literal: %q", s)
	}
	s = s[1 : len(s)-1]
	var b strings.Builder
	for i := 0; i < len(s); i++ {
		if s[i] == '\\' && i+1 < len(s) {
			i++
			switch s[i] {
			case 'n':
				b.WriteByte('\n')
			case 't':
				b.WriteByte('\t')
			case 'r':
				b.WriteByte('\r')
			case 'b':
				b.WriteByte('\b')
			case 'f':
				b.WriteByte('\f')
			case '0':
				b.WriteByte(0)
			default:
				b.WriteByte(s[i])
			}
			continue
		}
		b.WriteByte(s[i])
	}
	return b.String(), nil
}

var leafWidth = map[string]int{
	"Int8": 1, "UInt8": 1, "Int16": 2, "UInt16": 2, "Int32": 4, "UInt32": 4, "Int64": 8, "UInt64": 8,
	"Int128": 16, "UInt128": 16, "Int256": 32, "UInt256": 32, "Float32": 4, "Float64": 8,
	"Date": 2, "Date32": 4, "DateTime": 4, "DateTime64": 8, "UUID": 16, "IPv4": 4, "IPv6": 16, "Bool": 1,
	"Enum8": 1, "Enum16": 2, "Decimal32": 4, "Decimal64": 8, "Decimal128": 16, "Decimal256": 32,
	"Nothing": 1, "Point": 16,
	"IntervalSecond": 8, "IntervalMinute": 8, "IntervalHour": 8, "IntervalDay": 8, "IntervalWeek": 8,
	"IntervalMonth": 8, "IntervalQuarter": 8, "IntervalYear": 8,
}

// Width returns the fixed wire width of a leaf type (0 for variable-width / composite).
func (t *Type) Width() int {
	switch t.Base {
	case "FixedString":
		return t.N
	case "Decimal":
		switch {
		case t.N < 10:
			return 4
		case t.N < 19:
			return 8
		case t.N < 39:
			return 16
		default:
			return 32
		}
	}
	return leafWidth[t.Base]
}

func ParseType(s string) (*Type, error) {
	s = strings.TrimSpace(s)
	t := &Type{Raw: s}
	if s == "" {
		return nil, fmt.Errorf("empty type")
	}
	open := strings.IndexByte(s, '(')
	if open < 0 {
		if strings.ContainsAny(s, "), '") {
			return nil, fmt.Errorf("malformed type %q", s)
		}
		t.Base = s
		switch s {
		case "String", "JSON", "Decimal":
			if s == "Decimal" {
				return nil, fmt.Errorf("Decimal needs parameters")
			}
			return t, nil
		case "Array", "Nullable", "LowCardinality", "Map", "Tuple", "FixedString", "DateTime64", "Enum8", "Enum16":
			return nil, fmt.Errorf("%s needs parameters", s)
		}
		if _, ok := leafWidth[s]; !ok {
			return nil, fmt.Errorf("unknown type %q", s)
		}
		return t, nil
	}
	if s[len(s)-1] != ')' || open == 0 {
		return nil, fmt.Errorf("malformed type %q", s)
	}
	t.Base = s[:open]
	inner := s[open+1 : len(s)-1]
	args, err := splitArgs(inner)
	if err != nil {
		return nil, err
	}
	one := func() (*Type, error) {
		if len(args) != 1 {
			return nil, fmt.Errorf("%s expects one argument", t.Base)
		}
		return ParseType(args[0])
	}
	switch t.Base {
	case "Array", "Nullable", "LowCardinality":
		a, err := one()
		if err != nil {
			return nil, err
		}
		t.Args = []*Type{a}
	case "Map":
		if len(args) != 2 {
			return nil, fmt.Errorf("Map expects two arguments")
		}
		for _, a := range args {
			at, err := ParseType(a)
			if err != nil {
				return nil, err
			}
			t.Args = append(t.Args, at)
		}
	case "Tuple":
		for _, a := range args {
			name := ""
			// "name Type" form: an identifier, a space, then a type.
			if sp := strings.IndexByte(a, ' '); sp > 0 && !strings.ContainsAny(a[:sp], "(',") {
				if at, err := ParseType(a[sp+1:]); err == nil {
					t.Args = append(t.Args, at)
					t.Names = append(t.Names, a[:sp])
					continue
				}
			}
			at, err := ParseType(a)
			if err != nil {
				return nil, err
			}
			t.Args = append(t.Args, at)
			t.Names = append(t.Names, name)
		}
	case "FixedString":
		if len(args) != 1 {
			return nil, fmt.Errorf("FixedString expects one argument")
		}
		n, err := strconv.Atoi(args[0])
		if err != nil || n <= 0 {
			return nil, fmt.Errorf("bad FixedString size %q", args[0])
		}
		t.N = n
	case "DateTime":
		if len(args) != 1 {
			return nil, fmt.Errorf("DateTime expects at most one argument")
		}
		tz, err := unquote(args[0])
		if err != nil {
			return nil, err
		}
		t.TZ, t.HasTZ = tz, true
	case "DateTime64":
		if len(args) < 1 || len(args) > 2 {
			return nil, fmt.Errorf("DateTime64 expects 1..2 arguments")
		}
		n, err := strconv.Atoi(args[0])
		if err != nil || n < 0 || n > 9 {
			return nil, fmt.Errorf("bad DateTime64 precision %q", args[0])
		}
		t.N = n
		if len(args) == 2 {
			tz, err := unquote(args[1])
			if err != nil {
				return nil, err
			}
			t.TZ, t.HasTZ = tz, true
		}
	case "Decimal":
		if len(args) != 2 {
			return nil, fmt.Errorf("Decimal expects two arguments")
		}
		p, err1 := strconv.Atoi(args[0])
		sc, err2 := strconv.Atoi(args[1])
		if err1 != nil || err2 != nil || p < 1 || p > 76 || sc < 0 || sc > p {
			return nil, fmt.Errorf("bad Decimal parameters %q", inner)
		}
		t.N, t.Scale = p, sc
	case "Decimal32", "Decimal64", "Decimal128", "Decimal256":
		if len(args) != 1 {
			return nil, fmt.Errorf("%s expects one argument", t.Base)
		}
		sc, err := strconv.Atoi(args[0])
		if err != nil || sc < 0 {
			return nil, fmt.Errorf("bad scale %q", args[0])
		}
		t.Scale = sc
	case "Enum8", "Enum16":
		for _, a := range args {
			// 'name' = value ; the name may contain '=' and ','
			eq := strings.LastIndexByte(a, '=')
			if eq < 0 {
				return nil, fmt.Errorf("bad enum item %q", a)
			}
			name, err := unquote(a[:eq])
			if err != nil {
				return nil, err
			}
			v, err := strconv.Atoi(strings.TrimSpace(a[eq+1:]))
			if err != nil {
				return nil, fmt.Errorf("bad enum value in %q", a)
			}
			t.Enum = append(t.Enum, EnumItem{Name: name, Val: v})
		}
		if len(t.Enum) == 0 {
			return nil, fmt.Errorf("empty enum")
		}
	default:
		return nil, fmt.Errorf("unknown parametric type %q", t.Base)
	}
	return t, nil
}

// Canon renders the type in a canonical spelling (", " separators).
func (t *Type) Canon() string {
	switch t.Base {
	case "Array", "Nullable", "LowCardinality", "Map":
		var a []string
		for _, x := range t.Args {
			a = append(a, x.Canon())
		}
		return t.Base + "(" + strings.Join(a, ", ") + ")"
	case "Tuple":
		var a []string
		for i, x := range t.Args {
			if t.Names[i] != "" {
				a = append(a, t.Names[i]+" "+x.Canon())
			} else {
				a = append(a, x.Canon())
			}
		}
		return "Tuple(" + strings.Join(a, ", ") + ")"
	}
	return t.Raw
}

// Depth of nesting (leaf = 0).
func (t *Type) Depth() int {
	d := 0
	for _, a := range t.Args {
		if x := a.Depth() + 1; x > d {
			d = x
		}
	}
	return d
}
