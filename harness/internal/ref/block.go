package ref

import "fmt"

// Protocol feature thresholds (Core/ProtocolDefines.h), restricted to what ch-go models.
const (
	RevTempTables          = 50264
	RevBlockInfo           = 51903
	RevTimezone            = 54058
	RevQuotaKeyInInfo      = 54060
	RevDisplayName         = 54372
	RevVersionPatch        = 54401
	RevServerLogs          = 54406
	RevClientWriteInfo     = 54420
	RevSettingsAsStr       = 54429
	RevInterserverSecret   = 54441
	RevOpenTelemetry       = 54442
	RevDistributedDepth    = 54448
	RevQueryStartTime      = 54449
	RevProfileEvents       = 54451
	RevParallelReplicas    = 54453
	RevCustomSerialization = 54454
	RevQuotaKeyAddendum    = 54458
	RevParameters          = 54459
	RevServerQueryTime     = 54460
)

// Thresholds lists every threshold above, for revision-representative generation.
var Thresholds = []int{RevTempTables, RevBlockInfo, RevTimezone, RevQuotaKeyInInfo, RevDisplayName, RevVersionPatch,
	RevServerLogs, 54410, RevClientWriteInfo, RevSettingsAsStr, RevInterserverSecret, RevOpenTelemetry, 54443, 54447,
	RevDistributedDepth, RevQueryStartTime, RevProfileEvents, RevParallelReplicas, RevCustomSerialization,
	RevQuotaKeyAddendum, RevParameters, RevServerQueryTime, 54475}

type BlockInfo struct {
	Overflows bool
	Bucket    int32
}

type Col struct {
	Name string
	Type string
	Vals []Val
	LC   *LCOpts `json:"-"`
}

type Block struct {
	Info BlockInfo
	Cols []Col
	Rows int
}

func EncodeBlockInfo(w *W, i BlockInfo) {
	w.UVarint(1)
	w.Bool(i.Overflows)
	w.UVarint(2)
	w.I32(i.Bucket)
	w.UVarint(0)
}

// EncodeBlock writes a block (info, counts, columns) at the revision.
func EncodeBlock(w *W, rev int, b *Block) error {
	if rev >= RevBlockInfo {
		EncodeBlockInfo(w, b.Info)
	}
	w.UVarint(uint64(len(b.Cols)))
	w.UVarint(uint64(b.Rows))
	for _, c := range b.Cols {
		t, err := ParseType(c.Type)
		if err != nil {
			return err
		}
		if len(c.Vals) != b.Rows {
			return fmt.Errorf("ref: column %q has %d values for %d rows", c.Name, len(c.Vals), b.Rows)
		}
		w.Str(c.Name)
		w.Str(c.Type)
		if rev >= RevCustomSerialization {
			w.U8(0)
		}
		if b.Rows == 0 {
			continue
		}
		EncodeState(w, t)
		EncodeColumn(w, t, c.Vals, c.LC)
	}
	return nil
}

func DecodeBlockInfo(r *R) (BlockInfo, error) {
	var i BlockInfo
	for {
		f, err := r.UVarint()
		if err != nil {
			return i, err
		}
		switch f {
		case 0:
			return i, nil
		case 1:
			v, err := r.Bool()
			if err != nil {
				return i, err
			}
			i.Overflows = v
		case 2:
			v, err := r.I32()
			if err != nil {
				return i, err
			}
			i.Bucket = v
		default:
			return i, fmt.Errorf("ref: unknown block info field %d", f)
		}
	}
}

func DecodeBlock(r *R, rev int) (*Block, error) {
	b := &Block{}
	if rev >= RevBlockInfo {
		i, err := DecodeBlockInfo(r)
		if err != nil {
			return nil, err
		}
		b.Info = i
	}
	nc, err := r.UVarint()
	if err != nil {
		return nil, err
	}
	nr, err := r.UVarint()
	if err != nil {
		return nil, err
	}
	if nc > 1<<20 || nr > maxRows {
		return nil, fmt.Errorf("ref: implausible block %d x %d", nc, nr)
	}
	b.Rows = int(nr)
	for i := 0; i < int(nc); i++ {
		name, err := r.Str()
		if err != nil {
			return nil, err
		}
		ts, err := r.Str()
		if err != nil {
			return nil, err
		}
		if rev >= RevCustomSerialization {
			cs, err := r.U8()
			if err != nil {
				return nil, err
			}
			if cs != 0 {
				return nil, fmt.Errorf("ref: custom serialization flag %d", cs)
			}
		}
		c := Col{Name: name, Type: ts}
		if b.Rows > 0 {
			t, err := ParseType(ts)
			if err != nil {
				return nil, fmt.Errorf("ref: column %q: %w", name, err)
			}
			if err := DecodeState(r, t); err != nil {
				return nil, err
			}
			v, err := DecodeColumn(r, t, b.Rows)
			if err != nil {
				return nil, err
			}
			c.Vals = v
		}
		b.Cols = append(b.Cols, c)
	}
	return b, nil
}
