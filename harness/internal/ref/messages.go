package ref

import "fmt"

// Packet codes.
const (
	ClientHelloCode  = 0
	ClientQueryCode  = 1
	ClientDataCode   = 2
	ClientCancelCode = 3
	ClientPingCode   = 4

	ServerHelloCode         = 0
	ServerDataCode          = 1
	ServerExceptionCode     = 2
	ServerProgressCode      = 3
	ServerPongCode          = 4
	ServerEndOfStreamCode   = 5
	ServerProfileCode       = 6
	ServerTotalsCode        = 7
	ServerExtremesCode      = 8
	ServerLogCode           = 10
	ServerTableColumnsCode  = 11
	ServerProfileEventsCode = 14
)

type ClientHello struct {
	Name                     string
	Major, Minor, Revision   uint64
	Database, User, Password string
}

func (h ClientHello) Encode(w *W) {
	w.UVarint(ClientHelloCode)
	w.Str(h.Name)
	w.UVarint(h.Major)
	w.UVarint(h.Minor)
	w.UVarint(h.Revision)
	w.Str(h.Database)
	w.Str(h.User)
	w.Str(h.Password)
}

// DecodeClientHello parses the body (after the packet code).
func DecodeClientHello(r *R) (h ClientHello, err error) {
	if h.Name, err = r.Str(); err != nil {
		return
	}
	if h.Major, err = r.UVarint(); err != nil {
		return
	}
	if h.Minor, err = r.UVarint(); err != nil {
		return
	}
	if h.Revision, err = r.UVarint(); err != nil {
		return
	}
	if h.Database, err = r.Str(); err != nil {
		return
	}
	if h.User, err = r.Str(); err != nil {
		return
	}
	h.Password, err = r.Str()
	return
}

type ServerHello struct {
	Name                   string
	Major, Minor, Revision uint64
	Timezone, DisplayName  string
	Patch                  uint64
}

// Encode writes the hello (with packet code) as a server does for a client of revision rev.
func (h ServerHello) Encode(w *W, rev int) {
	w.UVarint(ServerHelloCode)
	w.Str(h.Name)
	w.UVarint(h.Major)
	w.UVarint(h.Minor)
	w.UVarint(h.Revision)
	if rev >= RevTimezone {
		w.Str(h.Timezone)
	}
	if rev >= RevDisplayName {
		w.Str(h.DisplayName)
	}
	if rev >= RevVersionPatch {
		w.UVarint(h.Patch)
	}
}

func DecodeServerHello(r *R, rev int) (h ServerHello, err error) {
	if h.Name, err = r.Str(); err != nil {
		return
	}
	if h.Major, err = r.UVarint(); err != nil {
		return
	}
	if h.Minor, err = r.UVarint(); err != nil {
		return
	}
	if h.Revision, err = r.UVarint(); err != nil {
		return
	}
	if rev >= RevTimezone {
		if h.Timezone, err = r.Str(); err != nil {
			return
		}
	}
	if rev >= RevDisplayName {
		if h.DisplayName, err = r.Str(); err != nil {
			return
		}
	}
	if rev >= RevVersionPatch {
		if h.Patch, err = r.UVarint(); err != nil {
			return
		}
	}
	return
}

type Setting struct {
	Key, Value string
	Flags      uint64 // 1 important, 2 custom, 4 obsolete
}

type Trace struct {
	TraceID [16]byte // W3C order (big-endian hex order)
	SpanID  [8]byte
	State   string
	Flags   uint8
}

type ClientInfo struct {
	QueryKind      uint8
	InitialUser    string
	InitialQueryID string
	InitialAddress string
	InitialTime    int64
	Interface      uint8
	OSUser         string
	Hostname       string
	ClientName     string
	Major, Minor   uint64
	Revision       uint64
	QuotaKey       string
	DistDepth      uint64
	Patch          uint64
	Trace          *Trace
	Collaborate    uint64
	ReplicaCount   uint64
	ReplicaNumber  uint64
}

func rev8(b []byte) []byte {
	o := make([]byte, len(b))
	for i := 0; i+8 <= len(b); i += 8 {
		for j := 0; j < 8; j++ {
			o[i+j] = b[i+7-j]
		}
	}
	return o
}

func (c ClientInfo) Encode(w *W, rev int) {
	w.U8(c.QueryKind)
	w.Str(c.InitialUser)
	w.Str(c.InitialQueryID)
	w.Str(c.InitialAddress)
	if rev >= RevQueryStartTime {
		w.I64(c.InitialTime)
	}
	w.U8(c.Interface)
	w.Str(c.OSUser)
	w.Str(c.Hostname)
	w.Str(c.ClientName)
	w.UVarint(c.Major)
	w.UVarint(c.Minor)
	w.UVarint(c.Revision)
	if rev >= RevQuotaKeyInInfo {
		w.Str(c.QuotaKey)
	}
	if rev >= RevDistributedDepth {
		w.UVarint(c.DistDepth)
	}
	if rev >= RevVersionPatch && c.Interface == 1 {
		w.UVarint(c.Patch)
	}
	if rev >= RevOpenTelemetry {
		if c.Trace != nil {
			w.U8(1)
			// the server stores the trace id as two native-endian UInt64 halves
			w.Raw(rev8(c.Trace.TraceID[:]))
			w.Raw(rev8(c.Trace.SpanID[:]))
			w.Str(c.Trace.State)
			w.U8(c.Trace.Flags)
		} else {
			w.U8(0)
		}
	}
	if rev >= RevParallelReplicas {
		w.UVarint(c.Collaborate)
		w.UVarint(c.ReplicaCount)
		w.UVarint(c.ReplicaNumber)
	}
}

func DecodeClientInfo(r *R, rev int) (c ClientInfo, err error) {
	if c.QueryKind, err = r.U8(); err != nil {
		return
	}
	if c.InitialUser, err = r.Str(); err != nil {
		return
	}
	if c.InitialQueryID, err = r.Str(); err != nil {
		return
	}
	if c.InitialAddress, err = r.Str(); err != nil {
		return
	}
	if rev >= RevQueryStartTime {
		if c.InitialTime, err = r.I64(); err != nil {
			return
		}
	}
	if c.Interface, err = r.U8(); err != nil {
		return
	}
	if c.Interface != 1 {
		return c, fmt.Errorf("ref: interface %d not modelled", c.Interface)
	}
	if c.OSUser, err = r.Str(); err != nil {
		return
	}
	if c.Hostname, err = r.Str(); err != nil {
		return
	}
	if c.ClientName, err = r.Str(); err != nil {
		return
	}
	if c.Major, err = r.UVarint(); err != nil {
		return
	}
	if c.Minor, err = r.UVarint(); err != nil {
		return
	}
	if c.Revision, err = r.UVarint(); err != nil {
		return
	}
	if rev >= RevQuotaKeyInInfo {
		if c.QuotaKey, err = r.Str(); err != nil {
			return
		}
	}
	if rev >= RevDistributedDepth {
		if c.DistDepth, err = r.UVarint(); err != nil {
			return
		}
	}
	if rev >= RevVersionPatch {
		if c.Patch, err = r.UVarint(); err != nil {
			return
		}
	}
	if rev >= RevOpenTelemetry {
		var has uint8
		if has, err = r.U8(); err != nil {
			return
		}
		if has > 1 {
			return c, fmt.Errorf("ref: bad trace marker %d", has)
		}
		if has == 1 {
			t := &Trace{}
			var b []byte
			if b, err = r.Take(16); err != nil {
				return
			}
			copy(t.TraceID[:], rev8(b))
			if b, err = r.Take(8); err != nil {
				return
			}
			copy(t.SpanID[:], rev8(b))
			if t.State, err = r.Str(); err != nil {
				return
			}
			if t.Flags, err = r.U8(); err != nil {
				return
			}
			c.Trace = t
		}
	}
	if rev >= RevParallelReplicas {
		if c.Collaborate, err = r.UVarint(); err != nil {
			return
		}
		if c.ReplicaCount, err = r.UVarint(); err != nil {
			return
		}
		if c.ReplicaNumber, err = r.UVarint(); err != nil {
			return
		}
	}
	return
}

type Query struct {
	ID          string
	Info        ClientInfo
	HasInfo     bool
	Settings    []Setting
	Secret      string
	Stage       uint64
	Compression uint64
	Body        string
	Params      []Setting
}

// Encode writes the Query packet (with code) at rev. Settings require rev >= RevSettingsAsStr.
func (q Query) Encode(w *W, rev int) {
	w.UVarint(ClientQueryCode)
	w.Str(q.ID)
	if rev >= RevClientWriteInfo {
		q.Info.Encode(w, rev)
	}
	if rev >= RevSettingsAsStr {
		for _, s := range q.Settings {
			w.Str(s.Key)
			w.UVarint(s.Flags)
			w.Str(s.Value)
		}
	}
	w.Str("")
	if rev >= RevInterserverSecret {
		w.Str(q.Secret)
	}
	w.UVarint(q.Stage)
	w.UVarint(q.Compression)
	w.Str(q.Body)
	if rev >= RevParameters {
		for _, s := range q.Params {
			w.Str(s.Key)
			w.UVarint(s.Flags)
			w.Str(s.Value)
		}
		w.Str("")
	}
}

func decodeSettings(r *R) ([]Setting, error) {
	var out []Setting
	for {
		k, err := r.Str()
		if err != nil {
			return nil, err
		}
		if k == "" {
			return out, nil
		}
		f, err := r.UVarint()
		if err != nil {
			return nil, err
		}
		v, err := r.Str()
		if err != nil {
			return nil, err
		}
		out = append(out, Setting{Key: k, Value: v, Flags: f})
	}
}

// DecodeQuery parses the body of a Query packet (after the code).
func DecodeQuery(r *R, rev int) (q Query, err error) {
	if q.ID, err = r.Str(); err != nil {
		return
	}
	if rev >= RevClientWriteInfo {
		q.HasInfo = true
		if q.Info, err = DecodeClientInfo(r, rev); err != nil {
			return
		}
	}
	if rev >= RevSettingsAsStr {
		if q.Settings, err = decodeSettings(r); err != nil {
			return
		}
	} else {
		// binary settings format: only the empty list is modelled
		var k string
		if k, err = r.Str(); err != nil {
			return
		}
		if k != "" {
			return q, fmt.Errorf("ref: binary settings are not modelled (key %q)", k)
		}
	}
	if rev >= RevInterserverSecret {
		if q.Secret, err = r.Str(); err != nil {
			return
		}
	}
	if q.Stage, err = r.UVarint(); err != nil {
		return
	}
	if q.Compression, err = r.UVarint(); err != nil {
		return
	}
	if q.Body, err = r.Str(); err != nil {
		return
	}
	if rev >= RevParameters {
		if q.Params, err = decodeSettings(r); err != nil {
			return
		}
	}
	return
}

type Progress struct {
	Rows, Bytes, TotalRows, WroteRows, WroteBytes, ElapsedNs uint64
}

func (p Progress) Encode(w *W, rev int) {
	w.UVarint(p.Rows)
	w.UVarint(p.Bytes)
	w.UVarint(p.TotalRows)
	if rev >= RevClientWriteInfo {
		w.UVarint(p.WroteRows)
		w.UVarint(p.WroteBytes)
	}
	if rev >= RevServerQueryTime {
		w.UVarint(p.ElapsedNs)
	}
}

func DecodeProgress(r *R, rev int) (p Progress, err error) {
	if p.Rows, err = r.UVarint(); err != nil {
		return
	}
	if p.Bytes, err = r.UVarint(); err != nil {
		return
	}
	if p.TotalRows, err = r.UVarint(); err != nil {
		return
	}
	if rev >= RevClientWriteInfo {
		if p.WroteRows, err = r.UVarint(); err != nil {
			return
		}
		if p.WroteBytes, err = r.UVarint(); err != nil {
			return
		}
	}
	if rev >= RevServerQueryTime {
		if p.ElapsedNs, err = r.UVarint(); err != nil {
			return
		}
	}
	return
}

type Profile struct {
	Rows, Blocks, Bytes uint64
	AppliedLimit        bool
	RowsBeforeLimit     uint64
	CalcRowsBeforeLimit bool
}

func (p Profile) Encode(w *W) {
	w.UVarint(p.Rows)
	w.UVarint(p.Blocks)
	w.UVarint(p.Bytes)
	w.Bool(p.AppliedLimit)
	w.UVarint(p.RowsBeforeLimit)
	w.Bool(p.CalcRowsBeforeLimit)
}

func DecodeProfile(r *R) (p Profile, err error) {
	if p.Rows, err = r.UVarint(); err != nil {
		return
	}
	if p.Blocks, err = r.UVarint(); err != nil {
		return
	}
	if p.Bytes, err = r.UVarint(); err != nil {
		return
	}
	if p.AppliedLimit, err = r.Bool(); err != nil {
		return
	}
	if p.RowsBeforeLimit, err = r.UVarint(); err != nil {
		return
	}
	p.CalcRowsBeforeLimit, err = r.Bool()
	return
}

type Exception struct {
	Code                 int32
	Name, Message, Stack string
}

// EncodeExceptions writes a chain (first = top) without the packet code.
func EncodeExceptions(w *W, chain []Exception) {
	for i, e := range chain {
		w.I32(e.Code)
		w.Str(e.Name)
		w.Str(e.Message)
		w.Str(e.Stack)
		w.Bool(i != len(chain)-1)
	}
}

func DecodeExceptions(r *R) ([]Exception, error) {
	var out []Exception
	for {
		var e Exception
		var err error
		if e.Code, err = r.I32(); err != nil {
			return nil, err
		}
		if e.Name, err = r.Str(); err != nil {
			return nil, err
		}
		if e.Message, err = r.Str(); err != nil {
			return nil, err
		}
		if e.Stack, err = r.Str(); err != nil {
			return nil, err
		}
		nested, err := r.Bool()
		if err != nil {
			return nil, err
		}
		out = append(out, e)
		if !nested {
			return out, nil
		}
		if len(out) > 1000 {
			return nil, fmt.Errorf("ref: exception chain too long")
		}
	}
}

type TableColumns struct{ First, Second string }

func (t TableColumns) Encode(w *W) { w.Str(t.First); w.Str(t.Second) }

func DecodeTableColumns(r *R) (t TableColumns, err error) {
	if t.First, err = r.Str(); err != nil {
		return
	}
	t.Second, err = r.Str()
	return
}
