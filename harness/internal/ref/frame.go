package ref

import (
	"encoding/binary"
	"fmt"

	"github.com/go-faster/city"
	"github.com/klauspost/compress/zstd"
	"github.com/pierrec/lz4/v4"
)

// Compressed frame layout (CompressedWriteBuffer):
//
//	16 bytes CityHash128 (v1.0.2) of everything after it
//	 1 byte  method (0x02 none, 0x82 LZ4, 0x90 ZSTD)
//	 4 bytes compressed size including these 9 header bytes
//	 4 bytes uncompressed size
//	 payload
const (
	MethodNone = 0x02
	MethodLZ4  = 0x82
	MethodZSTD = 0x90
	MaxFrame   = 128 << 20
)

type Frame struct {
	Method   byte
	RawSize  int // payload bytes on the wire
	DataSize int
	Data     []byte // decompressed
	Len      int    // whole frame length on the wire
}

var zdec, _ = zstd.NewReader(nil, zstd.WithDecoderConcurrency(1))

// ParseFrame parses and verifies one frame at the start of b.
func ParseFrame(b []byte) (*Frame, error) {
	if len(b) < 25 {
		return nil, ErrShort
	}
	f := &Frame{Method: b[16]}
	cs := int(binary.LittleEndian.Uint32(b[17:]))
	ds := int(binary.LittleEndian.Uint32(b[21:]))
	if cs < 9 || cs-9 > MaxFrame || ds > MaxFrame {
		return nil, fmt.Errorf("ref: frame sizes out of range: compressed %d, data %d", cs, ds)
	}
	f.RawSize, f.DataSize, f.Len = cs-9, ds, 16+cs
	if len(b) < f.Len {
		return nil, ErrShort
	}
	h := city.CH128(b[16:f.Len])
	if binary.LittleEndian.Uint64(b[0:]) != h.Low || binary.LittleEndian.Uint64(b[8:]) != h.High {
		return nil, fmt.Errorf("ref: frame checksum mismatch")
	}
	payload := b[25:f.Len]
	switch f.Method {
	case MethodNone:
		if len(payload) != ds {
			return nil, fmt.Errorf("ref: NONE frame payload %d != data size %d", len(payload), ds)
		}
		f.Data = append([]byte(nil), payload...)
	case MethodLZ4:
		out := make([]byte, ds)
		n, err := lz4.UncompressBlock(payload, out)
		if err != nil {
			return nil, fmt.Errorf("ref: lz4: %w", err)
		}
		if n != ds {
			return nil, fmt.Errorf("ref: lz4 produced %d bytes, header says %d", n, ds)
		}
		f.Data = out
	case MethodZSTD:
		out, err := zdec.DecodeAll(payload, nil)
		if err != nil {
			return nil, fmt.Errorf("ref: zstd: %w", err)
		}
		if len(out) != ds {
			return nil, fmt.Errorf("ref: zstd produced %d bytes, header says %d", len(out), ds)
		}
		f.Data = out
	default:
		return nil, fmt.Errorf("ref: unknown compression method 0x%02x", f.Method)
	}
	return f, nil
}

// MakeFrame builds a frame around data (method NONE or LZ4), as a server would.
func MakeFrame(method byte, data []byte) []byte {
	var payload []byte
	switch method {
	case MethodLZ4:
		buf := make([]byte, lz4.CompressBlockBound(len(data))+16)
		var c lz4.Compressor
		n, err := c.CompressBlock(data, buf)
		if err != nil || (n == 0 && len(data) > 0) {
			// incompressible: emit as literal-only LZ4 block is not available here; fall back to NONE
			method = MethodNone
			payload = data
		} else {
			payload = buf[:n]
		}
	case MethodZSTD:
		enc, _ := zstd.NewWriter(nil, zstd.WithEncoderConcurrency(1))
		payload = enc.EncodeAll(data, nil)
	default:
		method = MethodNone
		payload = data
	}
	out := make([]byte, 25, 25+len(payload))
	out[16] = method
	binary.LittleEndian.PutUint32(out[17:], uint32(len(payload)+9))
	binary.LittleEndian.PutUint32(out[21:], uint32(len(data)))
	out = append(out, payload...)
	h := city.CH128(out[16:])
	binary.LittleEndian.PutUint64(out[0:], h.Low)
	binary.LittleEndian.PutUint64(out[8:], h.High)
	return out
}
