//go:build (amd64 || arm64 || riscv64) && !purego

package val

import (
	"github.com/ClickHouse/ch-go/proto"

	"verif/internal/ref"
)

// HasRawOf: ColRawOf exists only in the default (unsafe) build.
const HasRawOf = true

func regRawOf() {
	regCmp(fixedArr[[6]byte](6, func(b []byte) [6]byte { var a [6]byte; copy(a[:], b); return a }, func(a [6]byte) []byte { return append([]byte(nil), a[:]...) },
		"FixedString(6)", "ColRawOf[[6]byte]", func() proto.ColumnOf[[6]byte] { return new(proto.ColRawOf[[6]byte]) }))
	_ = ref.Val{}
}
