package val

import (
	"fmt"
	"math"
	"reflect"
	"time"

	"github.com/ClickHouse/ch-go/proto"

	"verif/internal/ref"
)

// ReadCol reads every row of an arbitrary library column (typed, inferred by ColAuto, boxed)
// back into the value model by reflection over Row(i) / RowKV(i), guided by the type AST.
type rowser interface{ Rows() int }

func ReadCol(col rowser, t *ref.Type) (out []ref.Val, err error) {
	defer func() {
		if p := recover(); p != nil {
			err = fmt.Errorf("row accessor panicked: %v", p)
		}
	}()
	if a, ok := col.(*proto.ColAuto); ok {
		col = a.Data
	}
	if a, ok := col.(proto.ColAuto); ok {
		col = a.Data
	}
	n := col.Rows()
	if tup, ok := col.(proto.ColTuple); ok {
		if t.Base != "Tuple" || len(tup) != len(t.Args) {
			return nil, fmt.Errorf("tuple shape mismatch")
		}
		parts := make([][]ref.Val, len(tup))
		for j, c := range tup {
			p, err := ReadCol(c, t.Args[j])
			if err != nil {
				return nil, err
			}
			parts[j] = p
		}
		for i := 0; i < n; i++ {
			l := make([]ref.Val, len(parts))
			for j := range parts {
				l[j] = parts[j][i]
			}
			out = append(out, ref.List(l))
		}
		return out, nil
	}
	rv := reflect.ValueOf(col)
	if t.Base == "Map" {
		m := rv.MethodByName("RowKV")
		if !m.IsValid() {
			return nil, fmt.Errorf("%T has no RowKV", col)
		}
		for i := 0; i < n; i++ {
			kvs := m.Call([]reflect.Value{reflect.ValueOf(i)})[0]
			l := make([]ref.Val, kvs.Len())
			for j := 0; j < kvs.Len(); j++ {
				kv := kvs.Index(j)
				k, err := fromGo(kv.FieldByName("Key"), t.Args[0])
				if err != nil {
					return nil, err
				}
				v, err := fromGo(kv.FieldByName("Value"), t.Args[1])
				if err != nil {
					return nil, err
				}
				l[j] = ref.List([]ref.Val{k, v})
			}
			out = append(out, ref.List(l))
		}
		return out, nil
	}
	m := rv.MethodByName("Row")
	if !m.IsValid() {
		return nil, fmt.Errorf("%T has no Row method", col)
	}
	for i := 0; i < n; i++ {
		x := m.Call([]reflect.Value{reflect.ValueOf(i)})[0]
		v, err := fromGo(x, t)
		if err != nil {
			return nil, fmt.Errorf("row %d: %w", i, err)
		}
		out = append(out, v)
	}
	return out, nil
}

var timeType = reflect.TypeOf(time.Time{})

func fromGo(x reflect.Value, t *ref.Type) (ref.Val, error) {
	for x.Kind() == reflect.Interface {
		if x.IsNil() {
			return ref.Val{}, fmt.Errorf("nil interface value for %s", t.Raw)
		}
		x = x.Elem()
	}
	if v, ok := x.Interface().(ref.Val); ok { // boxed columns
		return v, nil
	}
	switch t.Base {
	case "Array":
		if x.Kind() != reflect.Slice {
			return ref.Val{}, fmt.Errorf("Array row is %s", x.Type())
		}
		l := make([]ref.Val, x.Len())
		for i := range l {
			v, err := fromGo(x.Index(i), t.Args[0])
			if err != nil {
				return ref.Val{}, err
			}
			l[i] = v
		}
		return ref.List(l), nil
	case "Nullable":
		if x.Kind() != reflect.Struct || !x.FieldByName("Set").IsValid() {
			return ref.Val{}, fmt.Errorf("Nullable row is %s", x.Type())
		}
		if !x.FieldByName("Set").Bool() {
			return ref.Val{Null: true}, nil
		}
		return fromGo(x.FieldByName("Value"), t.Args[0])
	case "LowCardinality":
		return fromGo(x, t.Args[0])
	case "Map":
		// map[K]V from Row(i) (only reached for nested maps): order is lost; not used for comparison
		return ref.Val{}, fmt.Errorf("nested Map read through Row is unordered")
	case "Tuple":
		return ref.Val{}, fmt.Errorf("Tuple has no row accessor")
	}
	w := t.Width()
	switch x.Kind() {
	case reflect.String:
		s := x.String()
		if t.Base == "Enum8" || t.Base == "Enum16" {
			for _, e := range t.Enum {
				if e.Name == s {
					if t.Base == "Enum8" {
						return ref.Leaf([]byte{byte(int8(e.Val))}), nil
					}
					return ref.Leaf(putLE(uint64(uint16(int16(e.Val))), 2)), nil
				}
			}
			return ref.Val{}, fmt.Errorf("enum name %q not in %s", s, t.Raw)
		}
		return ref.Leaf([]byte(s)), nil
	case reflect.Bool:
		if x.Bool() {
			return ref.Leaf([]byte{1}), nil
		}
		return ref.Leaf([]byte{0}), nil
	case reflect.Int, reflect.Int8, reflect.Int16, reflect.Int32, reflect.Int64:
		return ref.Leaf(putLE(uint64(x.Int()), w)), nil
	case reflect.Uint, reflect.Uint8, reflect.Uint16, reflect.Uint32, reflect.Uint64:
		return ref.Leaf(putLE(x.Uint(), w)), nil
	case reflect.Float32:
		// x.Float() would widen to float64 and quiet signalling NaNs; keep the bits.
		return ref.Leaf(putLE(uint64(math.Float32bits(x.Interface().(float32))), 4)), nil
	case reflect.Float64:
		return ref.Leaf(putLE(math.Float64bits(x.Float()), 8)), nil
	case reflect.Slice:
		if x.Type().Elem().Kind() == reflect.Uint8 {
			return ref.Leaf(append([]byte(nil), x.Bytes()...)), nil
		}
	case reflect.Array:
		if x.Type().Elem().Kind() == reflect.Uint8 {
			b := make([]byte, x.Len())
			for i := range b {
				b[i] = byte(x.Index(i).Uint())
			}
			if t.Base == "UUID" {
				b = swapHalves(b)
			}
			return ref.Leaf(b), nil
		}
	case reflect.Struct:
		if x.Type() == timeType {
			tm := x.Interface().(time.Time)
			switch t.Base {
			case "Date":
				return ref.Leaf(putLE(uint64(timeToDay(tm.UTC())), 2)), nil
			case "Date32":
				return ref.Leaf(putLE(uint64(timeToDay(tm.UTC())), 4)), nil
			case "DateTime":
				return ref.Leaf(putLE(uint64(tm.Unix()), 4)), nil
			case "DateTime64":
				pow := int64(1)
				for i := 0; i < t.N; i++ {
					pow *= 10
				}
				return ref.Leaf(putLE(uint64(tm.Unix()*pow+int64(tm.Nanosecond())/(int64(1e9)/pow)), 8)), nil
			}
			return ref.Val{}, fmt.Errorf("time.Time for %s", t.Raw)
		}
		switch v := x.Interface().(type) {
		case proto.Int128:
			return u128From(proto.UInt128(v)), nil
		case proto.UInt128:
			return u128From(v), nil
		case proto.Decimal128:
			return u128From(proto.UInt128(v)), nil
		case proto.Int256:
			return u256From(proto.UInt256(v)), nil
		case proto.UInt256:
			return u256From(v), nil
		case proto.Decimal256:
			return u256From(proto.UInt256(v)), nil
		case proto.Point:
			return ref.Leaf(append(putLE(math.Float64bits(v.X), 8), putLE(math.Float64bits(v.Y), 8)...)), nil
		case proto.Interval:
			return ref.Leaf(putLE(uint64(v.Value), 8)), nil
		case proto.Nothing:
			return ref.Leaf([]byte{0}), nil
		}
	}
	return ref.Val{}, fmt.Errorf("cannot convert %s to %s", x.Type(), t.Raw)
}
