// Package val: bridges the reference value model (ref.Val) and the library's column
// objects: factories that build real ch-go columns for a type, append model values through
// the user-facing API and read them back through Row(i).
package val

import (
	"encoding/binary"
	"fmt"
	"math"
	"net/netip"
	"reflect"
	"time"
	"unsafe"

	"github.com/ClickHouse/ch-go/proto"
	"github.com/google/uuid"

	"verif/internal/ref"
)

// LibCol is a library column plus the glue to move model values in and out.
type LibCol interface {
	Col() proto.Column
	T() *ref.Type
	Append(v ref.Val)
	Get(i int) ref.Val
	Kind() string // how the column was built (typed:<ctor> / boxed / auto)
}

type node[T any] struct {
	col  proto.ColumnOf[T]
	t    *ref.Type
	to   func(ref.Val) T
	from func(T) ref.Val
	kind string
}

func (n *node[T]) Col() proto.Column { return n.col }
func (n *node[T]) T() *ref.Type      { return n.t }
func (n *node[T]) Append(v ref.Val)  { n.col.Append(n.to(v)) }
func (n *node[T]) Get(i int) ref.Val { return n.from(n.col.Row(i)) }
func (n *node[T]) Kind() string      { return n.kind }

// ArrAppender: the bulk append of the library column.
type ArrAppender interface {
	AppendArr(vs []ref.Val)
}

func (n *node[T]) AppendArr(vs []ref.Val) {
	xs := make([]T, len(vs))
	for i, v := range vs {
		xs[i] = n.to(v)
	}
	n.col.AppendArr(xs)
	// the slice belongs to the caller, who goes on using it as scratch space
	var zero T
	for i := range xs {
		xs[i] = zero
	}
}

// Setter is implemented by columns whose rows can be overwritten in place through the exported
// memory of the library column (slice-typed columns, the Values of LowCardinality and Enum), i.e.
// without Reset and without changing the row count.
type Setter interface {
	Set(i int, v ref.Val) bool
}

func (n *node[T]) Set(i int, v ref.Val) (ok bool) {
	defer func() {
		if recover() != nil {
			ok = false
		}
	}()
	x := reflect.ValueOf(n.to(v))
	cv := reflect.ValueOf(n.col)
	if cv.Kind() != reflect.Pointer {
		return false
	}
	e := cv.Elem()
	switch e.Kind() {
	case reflect.Slice:
		if e.Type().Elem() == x.Type() && i < e.Len() {
			e.Index(i).Set(x)
			return true
		}
	case reflect.Struct:
		f := e.FieldByName("Values")
		if f.IsValid() && f.CanSet() && f.Kind() == reflect.Slice && f.Type().Elem() == x.Type() && i < f.Len() {
			f.Index(i).Set(x)
			return true
		}
	}
	return false
}

func mustType(s string) *ref.Type {
	t, err := ref.ParseType(s)
	if err != nil {
		panic(fmt.Sprintf("val: bad type %q: %v", s, err))
	}
	return t
}

// ---- leaf definitions -----------------------------------------------------------------

// leafDef describes one user-facing leaf column kind for element type T.
type leafDef[T any] struct {
	typ  string
	mk   func() proto.ColumnOf[T]
	to   func(ref.Val) T
	from func(T) ref.Val
	kind string
}

func (l leafDef[T]) plain() LibCol {
	return &node[T]{col: l.mk(), t: mustType(l.typ), to: l.to, from: l.from, kind: "typed:" + l.kind}
}

func sliceTo[T any](to func(ref.Val) T) func(ref.Val) []T {
	return func(v ref.Val) []T {
		out := make([]T, len(v.L))
		for i, e := range v.L {
			out[i] = to(e)
		}
		return out
	}
}

func sliceFrom[T any](from func(T) ref.Val) func([]T) ref.Val {
	return func(s []T) ref.Val {
		l := make([]ref.Val, len(s))
		for i, e := range s {
			l[i] = from(e)
		}
		return ref.List(l)
	}
}

func nullTo[T any](to func(ref.Val) T, zero ref.Val) func(ref.Val) proto.Nullable[T] {
	return func(v ref.Val) proto.Nullable[T] {
		if v.Null {
			return proto.Nullable[T]{Set: false, Value: to(zero)}
		}
		return proto.Nullable[T]{Set: true, Value: to(v)}
	}
}

func nullFrom[T any](from func(T) ref.Val) func(proto.Nullable[T]) ref.Val {
	return func(n proto.Nullable[T]) ref.Val {
		if !n.Set {
			return ref.Val{Null: true}
		}
		return from(n.Value)
	}
}

func (l leafDef[T]) array() LibCol {
	return &node[[]T]{col: proto.NewArray[T](l.mk()), t: mustType("Array(" + l.typ + ")"),
		to: sliceTo(l.to), from: sliceFrom(l.from), kind: "typed:NewArray(" + l.kind + ")"}
}

func (l leafDef[T]) nullable() LibCol {
	zero := ref.Zero(mustType(l.typ))
	return &node[proto.Nullable[T]]{col: proto.NewColNullable[T](l.mk()), t: mustType("Nullable(" + l.typ + ")"),
		to: nullTo(l.to, zero), from: nullFrom(l.from), kind: "typed:NewColNullable(" + l.kind + ")"}
}

func (l leafDef[T]) arrayArray() LibCol {
	inner := proto.NewArray[T](l.mk())
	return &node[[][]T]{col: proto.NewArray[[]T](inner), t: mustType("Array(Array(" + l.typ + "))"),
		to: sliceTo(sliceTo(l.to)), from: sliceFrom(sliceFrom(l.from)), kind: "typed:NewArray(NewArray(" + l.kind + "))"}
}

func (l leafDef[T]) arrayNullable() LibCol {
	zero := ref.Zero(mustType(l.typ))
	inner := proto.NewColNullable[T](l.mk())
	return &node[[]proto.Nullable[T]]{col: proto.NewArray[proto.Nullable[T]](inner), t: mustType("Array(Nullable(" + l.typ + "))"),
		to: sliceTo(nullTo(l.to, zero)), from: sliceFrom(nullFrom(l.from)), kind: "typed:NewArray(NewColNullable(" + l.kind + "))"}
}

// mapStrKey: Map(String, T) built with AppendKV-free Append? Go maps iterate randomly, so the
// typed Map adapter appends through AppendKV and reads through RowKV.
type mapNode[K comparable, V any] struct {
	col   *proto.ColMap[K, V]
	t     *ref.Type
	kto   func(ref.Val) K
	kfrom func(K) ref.Val
	vto   func(ref.Val) V
	vfrom func(V) ref.Val
	kind  string
}

func (n *mapNode[K, V]) Col() proto.Column { return n.col }
func (n *mapNode[K, V]) T() *ref.Type      { return n.t }
func (n *mapNode[K, V]) Kind() string      { return n.kind }
func (n *mapNode[K, V]) Append(v ref.Val) {
	kv := make([]proto.KV[K, V], len(v.L))
	for i, p := range v.L {
		kv[i] = proto.KV[K, V]{Key: n.kto(p.L[0]), Value: n.vto(p.L[1])}
	}
	n.col.AppendKV(kv)
}
func (n *mapNode[K, V]) Get(i int) ref.Val {
	kv := n.col.RowKV(i)
	l := make([]ref.Val, len(kv))
	for j, p := range kv {
		l[j] = ref.List([]ref.Val{n.kfrom(p.Key), n.vfrom(p.Value)})
	}
	return ref.List(l)
}

func strTo(v ref.Val) string   { return string(v.B) }
func strFrom(s string) ref.Val { return ref.Leaf([]byte(s)) }

func (l leafDef[T]) mapFromString() LibCol {
	return &mapNode[string, T]{col: proto.NewMap[string, T](new(proto.ColStr), l.mk()), t: mustType("Map(String, " + l.typ + ")"),
		kto: strTo, kfrom: strFrom, vto: l.to, vfrom: l.from, kind: "typed:NewMap(ColStr," + l.kind + ")"}
}

func (l leafDef[T]) mapStringToArray() LibCol {
	return &mapNode[string, []T]{col: proto.NewMap[string, []T](new(proto.ColStr), proto.NewArray[T](l.mk())), t: mustType("Map(String, Array(" + l.typ + "))"),
		kto: strTo, kfrom: strFrom, vto: sliceTo(l.to), vfrom: sliceFrom(l.from), kind: "typed:NewMap(ColStr,NewArray(" + l.kind + "))"}
}

// comparable-only constructions
type cmpDef[T comparable] struct{ leafDef[T] }

func (l cmpDef[T]) lowCard() LibCol {
	return &node[T]{col: proto.NewLowCardinality[T](l.mk()), t: mustType("LowCardinality(" + l.typ + ")"),
		to: l.to, from: l.from, kind: "typed:NewLowCardinality(" + l.kind + ")"}
}

func (l cmpDef[T]) arrayLowCard() LibCol {
	return &node[[]T]{col: proto.NewArray[T](proto.NewLowCardinality[T](l.mk())), t: mustType("Array(LowCardinality(" + l.typ + "))"),
		to: sliceTo(l.to), from: sliceFrom(l.from), kind: "typed:NewArray(NewLowCardinality(" + l.kind + "))"}
}

func (l cmpDef[T]) mapToString() LibCol {
	return &mapNode[T, string]{col: proto.NewMap[T, string](l.mk(), new(proto.ColStr)), t: mustType("Map(" + l.typ + ", String)"),
		kto: l.to, kfrom: l.from, vto: strTo, vfrom: strFrom, kind: "typed:NewMap(" + l.kind + ",ColStr)"}
}

func (l cmpDef[T]) mapLCKeyArray() LibCol {
	return &mapNode[T, []T]{col: proto.NewMap[T, []T](proto.NewLowCardinality[T](l.mk()), proto.NewArray[T](l.mk())),
		t:   mustType("Map(LowCardinality(" + l.typ + "), Array(" + l.typ + "))"),
		kto: l.to, kfrom: l.from, vto: sliceTo(l.to), vfrom: sliceFrom(l.from), kind: "typed:NewMap(NewLowCardinality(" + l.kind + "),NewArray(" + l.kind + "))"}
}

// Entry is one catalogue entry: a constructor of a LibCol with a fixed type.
type Entry struct {
	Type string
	Kind string
	New  func() LibCol
	Leaf bool // a leaf entry (usable inside boxed compositions)
	Cmp  bool // usable as LowCardinality element / Map key
}

var Catalogue []Entry

// Leaves maps the type string to leaf entries (several kinds may share a type).
var Leaves = map[string][]Entry{}

func addEntry(e Entry) {
	Catalogue = append(Catalogue, e)
	if e.Leaf {
		Leaves[e.Type] = append(Leaves[e.Type], e)
	}
}

func regLeaf[T any](l leafDef[T]) {
	addEntry(Entry{Type: l.typ, Kind: l.kind, New: l.plain, Leaf: true})
	if l.typ == "Nothing" {
		addEntry(Entry{Type: "Nullable(Nothing)", Kind: "NewColNullable(" + l.kind + ")", New: l.nullable})
		addEntry(Entry{Type: "Array(Nothing)", Kind: "NewArray(" + l.kind + ")", New: l.array})
		return
	}
	addEntry(Entry{Type: "Array(" + l.typ + ")", Kind: "NewArray(" + l.kind + ")", New: l.array})
	addEntry(Entry{Type: "Nullable(" + l.typ + ")", Kind: "NewColNullable(" + l.kind + ")", New: l.nullable})
	addEntry(Entry{Type: "Array(Array(" + l.typ + "))", Kind: "NewArray(NewArray(" + l.kind + "))", New: l.arrayArray})
	addEntry(Entry{Type: "Array(Nullable(" + l.typ + "))", Kind: "NewArray(NewColNullable(" + l.kind + "))", New: l.arrayNullable})
	addEntry(Entry{Type: "Map(String, " + l.typ + ")", Kind: "NewMap(ColStr," + l.kind + ")", New: l.mapFromString})
	addEntry(Entry{Type: "Map(String, Array(" + l.typ + "))", Kind: "NewMap(ColStr,NewArray(" + l.kind + "))", New: l.mapStringToArray})
}

func regCmp[T comparable](l leafDef[T]) {
	regLeaf(l)
	Leaves[l.typ][len(Leaves[l.typ])-1].Cmp = true
	for i := range Catalogue {
		if Catalogue[i].Leaf && Catalogue[i].Kind == l.kind {
			Catalogue[i].Cmp = true
		}
	}
	c := cmpDef[T]{l}
	addEntry(Entry{Type: "LowCardinality(" + l.typ + ")", Kind: "NewLowCardinality(" + l.kind + ")", New: c.lowCard})
	addEntry(Entry{Type: "Array(LowCardinality(" + l.typ + "))", Kind: "NewArray(NewLowCardinality(" + l.kind + "))", New: c.arrayLowCard})
	addEntry(Entry{Type: "Map(" + l.typ + ", String)", Kind: "NewMap(" + l.kind + ",ColStr)", New: c.mapToString})
	addEntry(Entry{Type: "Map(LowCardinality(" + l.typ + "), Array(" + l.typ + "))", Kind: "NewMap(LC,Arr " + l.kind + ")", New: c.mapLCKeyArray})
}

// ---- conversions between wire bytes and Go values (independent of the library) --------

func le(b []byte, n int) uint64 {
	var x uint64
	for i := 0; i < n; i++ {
		x |= uint64(b[i]) << (8 * i)
	}
	return x
}

func putLE(x uint64, n int) []byte {
	b := make([]byte, n)
	for i := 0; i < n; i++ {
		b[i] = byte(x >> (8 * i))
	}
	return b
}

func intLeaf[T ~int8 | ~int16 | ~int32 | ~int64 | ~uint8 | ~uint16 | ~uint32 | ~uint64](typ, kind string, n int, mk func() proto.ColumnOf[T]) leafDef[T] {
	return leafDef[T]{typ: typ, kind: kind, mk: mk,
		to:   func(v ref.Val) T { return T(le(v.B, n)) },
		from: func(x T) ref.Val { return ref.Leaf(putLE(uint64(x), n)) }}
}

func u128To(v ref.Val) proto.UInt128 {
	return proto.UInt128{Low: binary.LittleEndian.Uint64(v.B[0:]), High: binary.LittleEndian.Uint64(v.B[8:])}
}
func u128From(x proto.UInt128) ref.Val {
	b := make([]byte, 16)
	binary.LittleEndian.PutUint64(b[0:], x.Low)
	binary.LittleEndian.PutUint64(b[8:], x.High)
	return ref.Leaf(b)
}
func u256To(v ref.Val) proto.UInt256 {
	return proto.UInt256{Low: u128To(ref.Leaf(v.B[:16])), High: u128To(ref.Leaf(v.B[16:]))}
}
func u256From(x proto.UInt256) ref.Val {
	return ref.Leaf(append(u128From(x.Low).B, u128From(x.High).B...))
}

// uuid: the wire holds two little-endian UInt64 halves of the big-endian textual UUID.
func swapHalves(b []byte) []byte {
	o := make([]byte, 16)
	for i := 0; i < 8; i++ {
		o[i] = b[7-i]
		o[8+i] = b[15-i]
	}
	return o
}

// dayToTime: day 0 is handed over as Go's zero time.Time, which every conversion of the library
// maps to 0 (a caller's "no time").
func dayToTime(d int64) time.Time {
	if d == 0 {
		return time.Time{}
	}
	return time.Unix(d*86400, 0).UTC()
}

func secToTime(s int64) time.Time {
	if s == 0 {
		return time.Time{}
	}
	return time.Unix(s, 0)
}
func timeToDay(t time.Time) int64 {
	s := t.Unix()
	d := s / 86400
	if s%86400 < 0 {
		d--
	}
	return d
}

func fixedArr[A comparable](n int, to func([]byte) A, from func(A) []byte, typ, kind string, mk func() proto.ColumnOf[A]) leafDef[A] {
	return leafDef[A]{typ: typ, kind: kind, mk: mk,
		to:   func(v ref.Val) A { return to(v.B) },
		from: func(a A) ref.Val { return ref.Leaf(from(a)) }}
}

func init() {
	regCmp(intLeaf[int8]("Int8", "ColInt8", 1, func() proto.ColumnOf[int8] { return new(proto.ColInt8) }))
	regCmp(intLeaf[int16]("Int16", "ColInt16", 2, func() proto.ColumnOf[int16] { return new(proto.ColInt16) }))
	regCmp(intLeaf[int32]("Int32", "ColInt32", 4, func() proto.ColumnOf[int32] { return new(proto.ColInt32) }))
	regCmp(intLeaf[int64]("Int64", "ColInt64", 8, func() proto.ColumnOf[int64] { return new(proto.ColInt64) }))
	regCmp(intLeaf[uint8]("UInt8", "ColUInt8", 1, func() proto.ColumnOf[uint8] { return new(proto.ColUInt8) }))
	regCmp(intLeaf[uint16]("UInt16", "ColUInt16", 2, func() proto.ColumnOf[uint16] { return new(proto.ColUInt16) }))
	regCmp(intLeaf[uint32]("UInt32", "ColUInt32", 4, func() proto.ColumnOf[uint32] { return new(proto.ColUInt32) }))
	regCmp(intLeaf[uint64]("UInt64", "ColUInt64", 8, func() proto.ColumnOf[uint64] { return new(proto.ColUInt64) }))
	regCmp(intLeaf[proto.Enum8]("Enum8('a' = 1, 'b' = 2)", "ColEnum8", 1, func() proto.ColumnOf[proto.Enum8] {
		return rawTyped[proto.Enum8]{new(proto.ColEnum8), "Enum8('a' = 1, 'b' = 2)"}
	}))
	regCmp(intLeaf[proto.Enum16]("Enum16('x' = -300, 'y' = 1000)", "ColEnum16", 2, func() proto.ColumnOf[proto.Enum16] {
		return rawTyped[proto.Enum16]{new(proto.ColEnum16), "Enum16('x' = -300, 'y' = 1000)"}
	}))
	regCmp(intLeaf[proto.IPv4]("IPv4", "ColIPv4", 4, func() proto.ColumnOf[proto.IPv4] { return new(proto.ColIPv4) }))
	regCmp(intLeaf[proto.Decimal32]("Decimal(9, 2)", "ColDecimal32", 4, func() proto.ColumnOf[proto.Decimal32] {
		return rawTyped[proto.Decimal32]{new(proto.ColDecimal32), "Decimal(9, 2)"}
	}))
	regCmp(intLeaf[proto.Decimal64]("Decimal(18, 4)", "ColDecimal64", 8, func() proto.ColumnOf[proto.Decimal64] {
		return rawTyped[proto.Decimal64]{new(proto.ColDecimal64), "Decimal(18, 4)"}
	}))
	// the smallest precision of each wider storage class
	regCmp(intLeaf[proto.Decimal64]("Decimal(10, 3)", "ColDecimal64/p10", 8, func() proto.ColumnOf[proto.Decimal64] {
		return rawTyped[proto.Decimal64]{new(proto.ColDecimal64), "Decimal(10, 3)"}
	}))
	regCmp(leafDef[proto.Decimal128]{typ: "Decimal(19, 4)", kind: "ColDecimal128/p19",
		mk: func() proto.ColumnOf[proto.Decimal128] {
			return rawTyped[proto.Decimal128]{new(proto.ColDecimal128), "Decimal(19, 4)"}
		},
		to:   func(v ref.Val) proto.Decimal128 { return proto.Decimal128(u128To(v)) },
		from: func(x proto.Decimal128) ref.Val { return u128From(proto.UInt128(x)) }})
	regCmp(leafDef[proto.Decimal256]{typ: "Decimal(39, 5)", kind: "ColDecimal256/p39",
		mk: func() proto.ColumnOf[proto.Decimal256] {
			return rawTyped[proto.Decimal256]{new(proto.ColDecimal256), "Decimal(39, 5)"}
		},
		to:   func(v ref.Val) proto.Decimal256 { return proto.Decimal256(u256To(v)) },
		from: func(x proto.Decimal256) ref.Val { return u256From(proto.UInt256(x)) }})
	regCmp(leafDef[proto.Decimal128]{typ: "Decimal(38, 10)", kind: "ColDecimal128",
		mk: func() proto.ColumnOf[proto.Decimal128] {
			return rawTyped[proto.Decimal128]{new(proto.ColDecimal128), "Decimal(38, 10)"}
		},
		to:   func(v ref.Val) proto.Decimal128 { return proto.Decimal128(u128To(v)) },
		from: func(x proto.Decimal128) ref.Val { return u128From(proto.UInt128(x)) }})
	regCmp(leafDef[proto.Decimal256]{typ: "Decimal(76, 20)", kind: "ColDecimal256",
		mk: func() proto.ColumnOf[proto.Decimal256] {
			return rawTyped[proto.Decimal256]{new(proto.ColDecimal256), "Decimal(76, 20)"}
		},
		to:   func(v ref.Val) proto.Decimal256 { return proto.Decimal256(u256To(v)) },
		from: func(x proto.Decimal256) ref.Val { return u256From(proto.UInt256(x)) }})
	regCmp(leafDef[proto.Int128]{typ: "Int128", kind: "ColInt128", mk: func() proto.ColumnOf[proto.Int128] { return new(proto.ColInt128) },
		to: func(v ref.Val) proto.Int128 { return proto.Int128(u128To(v)) }, from: func(x proto.Int128) ref.Val { return u128From(proto.UInt128(x)) }})
	regCmp(leafDef[proto.UInt128]{typ: "UInt128", kind: "ColUInt128", mk: func() proto.ColumnOf[proto.UInt128] { return new(proto.ColUInt128) },
		to: u128To, from: u128From})
	regCmp(leafDef[proto.Int256]{typ: "Int256", kind: "ColInt256", mk: func() proto.ColumnOf[proto.Int256] { return new(proto.ColInt256) },
		to: func(v ref.Val) proto.Int256 { return proto.Int256(u256To(v)) }, from: func(x proto.Int256) ref.Val { return u256From(proto.UInt256(x)) }})
	regCmp(leafDef[proto.UInt256]{typ: "UInt256", kind: "ColUInt256", mk: func() proto.ColumnOf[proto.UInt256] { return new(proto.ColUInt256) },
		to: u256To, from: u256From})
	// floats: compare by bit pattern; as LowCardinality/Map key NaN != NaN would break dictionaries, so not Cmp.
	regLeaf(leafDef[float32]{typ: "Float32", kind: "ColFloat32", mk: func() proto.ColumnOf[float32] { return new(proto.ColFloat32) },
		to:   func(v ref.Val) float32 { return math.Float32frombits(uint32(le(v.B, 4))) },
		from: func(x float32) ref.Val { return ref.Leaf(putLE(uint64(math.Float32bits(x)), 4)) }})
	regLeaf(leafDef[float64]{typ: "Float64", kind: "ColFloat64", mk: func() proto.ColumnOf[float64] { return new(proto.ColFloat64) },
		to:   func(v ref.Val) float64 { return math.Float64frombits(le(v.B, 8)) },
		from: func(x float64) ref.Val { return ref.Leaf(putLE(math.Float64bits(x), 8)) }})
	regCmp(leafDef[string]{typ: "String", kind: "ColStr", mk: func() proto.ColumnOf[string] { return new(proto.ColStr) }, to: strTo, from: strFrom})
	regLeaf(leafDef[[]byte]{typ: "String", kind: "ColBytes", mk: func() proto.ColumnOf[[]byte] { return new(proto.ColBytes) },
		to: func(v ref.Val) []byte { return append([]byte(nil), v.B...) }, from: func(b []byte) ref.Val { return ref.Leaf(append([]byte(nil), b...)) }})
	regCmp(leafDef[string]{typ: "JSON", kind: "ColJSONStr", mk: func() proto.ColumnOf[string] { return new(proto.ColJSONStr) }, to: strTo, from: strFrom})
	regCmp(leafDef[bool]{typ: "Bool", kind: "ColBool", mk: func() proto.ColumnOf[bool] { return new(proto.ColBool) },
		to: func(v ref.Val) bool { return v.B[0] != 0 }, from: func(x bool) ref.Val {
			// the byte the bool is made of: a column that accepted a byte other than 0/1 hands out
			// a bool that is neither true nor false
			return ref.Leaf([]byte{*(*byte)(unsafe.Pointer(&x))})
		}})
	regCmp(leafDef[uuid.UUID]{typ: "UUID", kind: "ColUUID", mk: func() proto.ColumnOf[uuid.UUID] { return new(proto.ColUUID) },
		to:   func(v ref.Val) uuid.UUID { var u uuid.UUID; copy(u[:], swapHalves(v.B)); return u },
		from: func(u uuid.UUID) ref.Val { return ref.Leaf(swapHalves(u[:])) }})
	regCmp(leafDef[proto.IPv6]{typ: "IPv6", kind: "ColIPv6", mk: func() proto.ColumnOf[proto.IPv6] { return new(proto.ColIPv6) },
		to:   func(v ref.Val) proto.IPv6 { var a proto.IPv6; copy(a[:], v.B); return a },
		from: func(a proto.IPv6) ref.Val { return ref.Leaf(append([]byte(nil), a[:]...)) }})
	// temporal leaves through the time.Time API, instants restricted to each type's range by the generator
	regLeaf(leafDef[time.Time]{typ: "Date", kind: "ColDate", mk: func() proto.ColumnOf[time.Time] { return new(proto.ColDate) },
		to:   func(v ref.Val) time.Time { return dayToTime(int64(le(v.B, 2))) },
		from: func(t time.Time) ref.Val { return ref.Leaf(putLE(uint64(timeToDay(t)), 2)) }})
	regLeaf(leafDef[time.Time]{typ: "Date32", kind: "ColDate32", mk: func() proto.ColumnOf[time.Time] { return new(proto.ColDate32) },
		to:   func(v ref.Val) time.Time { return dayToTime(int64(int32(le(v.B, 4)))) },
		from: func(t time.Time) ref.Val { return ref.Leaf(putLE(uint64(timeToDay(t)), 4)) }})
	regLeaf(leafDef[time.Time]{typ: "DateTime", kind: "ColDateTime", mk: func() proto.ColumnOf[time.Time] { return new(proto.ColDateTime) },
		to:   func(v ref.Val) time.Time { return secToTime(int64(le(v.B, 4))) },
		from: func(t time.Time) ref.Val { return ref.Leaf(putLE(uint64(t.Unix()), 4)) }})
	regLeaf(leafDef[time.Time]{typ: "DateTime('UTC')", kind: "ColDateTime(UTC)", mk: func() proto.ColumnOf[time.Time] {
		return &proto.ColDateTime{Location: time.UTC}
	},
		to:   func(v ref.Val) time.Time { return secToTime(int64(le(v.B, 4))) },
		from: func(t time.Time) ref.Val { return ref.Leaf(putLE(uint64(t.Unix()), 4)) }})
	for _, p := range []int{0, 3, 6, 9} {
		p := p
		pow := int64(1)
		for i := 0; i < p; i++ {
			pow *= 10
		}
		tick := int64(1e9) / pow
		regLeaf(leafDef[time.Time]{typ: fmt.Sprintf("DateTime64(%d)", p), kind: fmt.Sprintf("ColDateTime64(p=%d)", p),
			mk: func() proto.ColumnOf[time.Time] { return new(proto.ColDateTime64).WithPrecision(proto.Precision(p)) },
			to: func(v ref.Val) time.Time {
				x := int64(le(v.B, 8))
				if x == 0 {
					return time.Time{}
				}
				s, f := x/pow, x%pow
				if f < 0 {
					s--
					f += pow
				}
				return time.Unix(s, f*tick)
			},
			from: func(t time.Time) ref.Val { return ref.Leaf(putLE(uint64(t.Unix()*pow+int64(t.Nanosecond())/tick), 8)) }})
	}
	regLeaf(leafDef[proto.DateTime64]{typ: "DateTime64(9, 'UTC')", kind: "ColDateTime64Raw", mk: func() proto.ColumnOf[proto.DateTime64] {
		c := new(proto.ColDateTime64).WithPrecision(9).WithLocation(time.UTC)
		return c.Raw()
	},
		to: func(v ref.Val) proto.DateTime64 { return proto.DateTime64(le(v.B, 8)) }, from: func(x proto.DateTime64) ref.Val { return ref.Leaf(putLE(uint64(x), 8)) }})
	regLeaf(leafDef[proto.Nothing]{typ: "Nothing", kind: "ColNothing", mk: func() proto.ColumnOf[proto.Nothing] { return new(proto.ColNothing) },
		to: func(v ref.Val) proto.Nothing { return proto.Nothing{} }, from: func(proto.Nothing) ref.Val { return ref.Leaf([]byte{0}) }})
	regLeaf(leafDef[proto.Point]{typ: "Point", kind: "ColPoint", mk: func() proto.ColumnOf[proto.Point] { return new(proto.ColPoint) },
		to: func(v ref.Val) proto.Point {
			return proto.Point{X: math.Float64frombits(le(v.B[:8], 8)), Y: math.Float64frombits(le(v.B[8:], 8))}
		},
		from: func(p proto.Point) ref.Val {
			return ref.Leaf(append(putLE(math.Float64bits(p.X), 8), putLE(math.Float64bits(p.Y), 8)...))
		}})
	regLeaf(leafDef[proto.Interval]{typ: "IntervalDay", kind: "ColInterval", mk: func() proto.ColumnOf[proto.Interval] {
		return intervalCol{&proto.ColInterval{Scale: proto.IntervalDay}}
	},
		to: func(v ref.Val) proto.Interval {
			return proto.Interval{Scale: proto.IntervalDay, Value: int64(le(v.B, 8))}
		},
		from: func(i proto.Interval) ref.Val { return ref.Leaf(putLE(uint64(i.Value), 8)) }})
	// fixed strings
	regLeaf(leafDef[[]byte]{typ: "FixedString(5)", kind: "ColFixedStr", mk: func() proto.ColumnOf[[]byte] { c := new(proto.ColFixedStr); c.SetSize(5); return c },
		to: func(v ref.Val) []byte { return append([]byte(nil), v.B...) }, from: func(b []byte) ref.Val { return ref.Leaf(append([]byte(nil), b...)) }})
	regCmp(fixedArr[[8]byte](8, func(b []byte) [8]byte { var a [8]byte; copy(a[:], b); return a }, func(a [8]byte) []byte { return append([]byte(nil), a[:]...) },
		"FixedString(8)", "ColFixedStr8", func() proto.ColumnOf[[8]byte] { return new(proto.ColFixedStr8) }))
	regCmp(fixedArr[[16]byte](16, func(b []byte) [16]byte { var a [16]byte; copy(a[:], b); return a }, func(a [16]byte) []byte { return append([]byte(nil), a[:]...) },
		"FixedString(16)", "ColFixedStr16", func() proto.ColumnOf[[16]byte] { return new(proto.ColFixedStr16) }))
	regCmp(fixedArr[[32]byte](32, func(b []byte) [32]byte { var a [32]byte; copy(a[:], b); return a }, func(a [32]byte) []byte { return append([]byte(nil), a[:]...) },
		"FixedString(32)", "ColFixedStr32", func() proto.ColumnOf[[32]byte] { return new(proto.ColFixedStr32) }))
	regCmp(fixedArr[[64]byte](64, func(b []byte) [64]byte { var a [64]byte; copy(a[:], b); return a }, func(a [64]byte) []byte { return append([]byte(nil), a[:]...) },
		"FixedString(64)", "ColFixedStr64", func() proto.ColumnOf[[64]byte] { return new(proto.ColFixedStr64) }))
	regCmp(fixedArr[[128]byte](128, func(b []byte) [128]byte { var a [128]byte; copy(a[:], b); return a }, func(a [128]byte) []byte { return append([]byte(nil), a[:]...) },
		"FixedString(128)", "ColFixedStr128", func() proto.ColumnOf[[128]byte] { return new(proto.ColFixedStr128) }))
	regCmp(fixedArr[[256]byte](256, func(b []byte) [256]byte { var a [256]byte; copy(a[:], b); return a }, func(a [256]byte) []byte { return append([]byte(nil), a[:]...) },
		"FixedString(256)", "ColFixedStr256", func() proto.ColumnOf[[256]byte] { return new(proto.ColFixedStr256) }))
	regCmp(fixedArr[[512]byte](512, func(b []byte) [512]byte { var a [512]byte; copy(a[:], b); return a }, func(a [512]byte) []byte { return append([]byte(nil), a[:]...) },
		"FixedString(512)", "ColFixedStr512", func() proto.ColumnOf[[512]byte] { return new(proto.ColFixedStr512) }))
	regRawOf()
	// ColEnum (string API over Enum8/Enum16)
	regLeaf(leafDef[string]{typ: "Enum8('hello' = 1, 'world' = 2, 'x y' = -5)", kind: "ColEnum(8)", mk: func() proto.ColumnOf[string] {
		c := new(proto.ColEnum)
		if err := c.Infer("Enum8('hello' = 1, 'world' = 2, 'x y' = -5)"); err != nil {
			panic(err)
		}
		return c
	},
		to: func(v ref.Val) string {
			return map[int8]string{1: "hello", 2: "world", -5: "x y"}[int8(v.B[0])]
		},
		from: func(s string) ref.Val {
			return ref.Leaf([]byte{byte(map[string]int8{"hello": 1, "world": 2, "x y": -5}[s])})
		}})
	regLeaf(leafDef[string]{typ: "Enum16('lo' = -30000, 'hi' = 30000, 'z' = 0)", kind: "ColEnum(16)", mk: func() proto.ColumnOf[string] {
		c := new(proto.ColEnum)
		if err := c.Infer("Enum16('lo' = -30000, 'hi' = 30000, 'z' = 0)"); err != nil {
			panic(err)
		}
		return c
	},
		to: func(v ref.Val) string {
			return map[int16]string{-30000: "lo", 30000: "hi", 0: "z"}[int16(le(v.B, 2))]
		},
		from: func(s string) ref.Val {
			return ref.Leaf(putLE(uint64(uint16(map[string]int16{"lo": -30000, "hi": 30000, "z": 0}[s])), 2))
		}})
	_ = netip.Addr{}
}

// rawTyped overrides Type() of a generated raw column (Enum8/Decimal*) with the full
// parametrised type, like proto.Alias does for users.
type rawTyped[T any] struct {
	proto.ColumnOf[T]
	t proto.ColumnType
}

func (r rawTyped[T]) Type() proto.ColumnType { return r.t }

type intervalCol struct{ *proto.ColInterval }

func (c intervalCol) AppendArr(v []proto.Interval) {
	for _, x := range v {
		c.Append(x)
	}
}
