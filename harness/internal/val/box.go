package val

import (
	"fmt"

	"github.com/ClickHouse/ch-go/proto"

	"verif/internal/ref"
)

// box adapts any LibCol to proto.ColumnOf[any] so that the library's generic composites
// (ColArr[any], ColNullable[any], ColLowCardinality[any], ColMap[any,any]) can be nested to
// any depth at run time.  The element value is ref.Val, or string(v.B) for key boxes (must be
// hashable: LowCardinality dictionary and Map keys).  It forwards the optional interfaces to
// the inner column when it has them and is a no-op otherwise, which is what the composites'
// own type assertions would do.
type box struct {
	in  LibCol
	key bool
}

func (b box) Type() proto.ColumnType                    { return b.in.Col().Type() }
func (b box) Rows() int                                 { return b.in.Col().Rows() }
func (b box) DecodeColumn(r *proto.Reader, n int) error { return b.in.Col().DecodeColumn(r, n) }
func (b box) Reset()                                    { b.in.Col().Reset() }
func (b box) EncodeColumn(buf *proto.Buffer)            { b.in.Col().EncodeColumn(buf) }
func (b box) WriteColumn(w *proto.Writer)               { b.in.Col().WriteColumn(w) }
func (b box) conv(v any) ref.Val {
	if b.key {
		return ref.Leaf([]byte(v.(string)))
	}
	return v.(ref.Val)
}
func (b box) Append(v any) { b.in.Append(b.conv(v)) }
func (b box) AppendArr(vs []any) {
	for _, v := range vs {
		b.Append(v)
	}
}
func (b box) Row(i int) any {
	v := b.in.Get(i)
	if b.key {
		return string(v.B)
	}
	return v
}
func (b box) Prepare() error {
	if p, ok := b.in.Col().(proto.Preparable); ok {
		return p.Prepare()
	}
	return nil
}
func (b box) EncodeState(buf *proto.Buffer) {
	if p, ok := b.in.Col().(proto.StateEncoder); ok {
		p.EncodeState(buf)
	}
}
func (b box) DecodeState(r *proto.Reader) error {
	if p, ok := b.in.Col().(proto.StateDecoder); ok {
		return p.DecodeState(r)
	}
	return nil
}
func (b box) Infer(t proto.ColumnType) error {
	if p, ok := b.in.Col().(proto.Inferable); ok {
		return p.Infer(t)
	}
	return nil
}

type boxed struct {
	col    proto.Column
	t      *ref.Type
	append func(ref.Val)
	get    func(int) ref.Val
	kind   string
}

func (b *boxed) Col() proto.Column { return b.col }
func (b *boxed) T() *ref.Type      { return b.t }
func (b *boxed) Append(v ref.Val)  { b.append(v) }
func (b *boxed) Get(i int) ref.Val { return b.get(i) }
func (b *boxed) Kind() string      { return b.kind }

func anys(l []ref.Val, key bool) []any {
	out := make([]any, len(l))
	for i, v := range l {
		if key {
			out[i] = string(v.B)
		} else {
			out[i] = v
		}
	}
	return out
}

// Build constructs a library column for any supported type by nesting boxed generic
// composites around catalogue leaves. pick selects among several leaf kinds of one type.
func Build(t *ref.Type, pick func(n int) int) (LibCol, error) {
	switch t.Base {
	case "Array":
		in, err := Build(t.Args[0], pick)
		if err != nil {
			return nil, err
		}
		c := proto.NewArray[any](box{in: in})
		return &boxed{col: c, t: t, kind: "boxed:Array(" + in.Kind() + ")",
			append: func(v ref.Val) { c.Append(anys(v.L, false)) },
			get: func(i int) ref.Val {
				row := c.Row(i)
				l := make([]ref.Val, len(row))
				for j, e := range row {
					l[j] = e.(ref.Val)
				}
				return ref.List(l)
			}}, nil
	case "Nullable":
		in, err := Build(t.Args[0], pick)
		if err != nil {
			return nil, err
		}
		zero := ref.Zero(t.Args[0])
		c := proto.NewColNullable[any](box{in: in})
		return &boxed{col: c, t: t, kind: "boxed:Nullable(" + in.Kind() + ")",
			append: func(v ref.Val) {
				if v.Null {
					c.Append(proto.Nullable[any]{Set: false, Value: zero})
				} else {
					c.Append(proto.Nullable[any]{Set: true, Value: v})
				}
			},
			get: func(i int) ref.Val {
				n := c.Row(i)
				if !n.Set {
					return ref.Val{Null: true}
				}
				return n.Value.(ref.Val)
			}}, nil
	case "LowCardinality":
		if t.Args[0].Depth() != 0 {
			return nil, fmt.Errorf("val: LowCardinality over %s not modelled", t.Args[0].Raw)
		}
		in, err := Build(t.Args[0], pick)
		if err != nil {
			return nil, err
		}
		c := proto.NewLowCardinality[any](box{in: in, key: true})
		return &boxed{col: c, t: t, kind: "boxed:LowCardinality(" + in.Kind() + ")",
			append: func(v ref.Val) { c.Append(string(v.B)) },
			get:    func(i int) ref.Val { return ref.Leaf([]byte(c.Row(i).(string))) }}, nil
	case "Map":
		if t.Args[0].Depth() != 0 && !(t.Args[0].Base == "LowCardinality" && t.Args[0].Args[0].Depth() == 0) {
			return nil, fmt.Errorf("val: Map key %s not modelled", t.Args[0].Raw)
		}
		k, err := Build(t.Args[0], pick)
		if err != nil {
			return nil, err
		}
		v, err := Build(t.Args[1], pick)
		if err != nil {
			return nil, err
		}
		c := proto.NewMap[any, any](box{in: k, key: true}, box{in: v})
		return &boxed{col: c, t: t, kind: "boxed:Map(" + k.Kind() + "," + v.Kind() + ")",
			append: func(x ref.Val) {
				kv := make([]proto.KV[any, any], len(x.L))
				for i, p := range x.L {
					kv[i] = proto.KV[any, any]{Key: string(p.L[0].B), Value: p.L[1]}
				}
				c.AppendKV(kv)
			},
			get: func(i int) ref.Val {
				kv := c.RowKV(i)
				l := make([]ref.Val, len(kv))
				for j, p := range kv {
					l[j] = ref.List([]ref.Val{ref.Leaf([]byte(p.Key.(string))), p.Value.(ref.Val)})
				}
				return ref.List(l)
			}}, nil
	case "Tuple":
		var parts []LibCol
		var cols proto.ColTuple
		kind := "boxed:Tuple("
		for i, a := range t.Args {
			p, err := Build(a, pick)
			if err != nil {
				return nil, err
			}
			parts = append(parts, p)
			if t.Names[i] != "" {
				cols = append(cols, proto.Named[any](box{in: p}, t.Names[i]))
			} else {
				cols = append(cols, p.Col())
			}
			kind += p.Kind() + ","
		}
		return &boxed{col: cols, t: t, kind: kind + ")",
			append: func(v ref.Val) {
				for i, p := range parts {
					p.Append(v.L[i])
				}
			},
			get: func(i int) ref.Val {
				l := make([]ref.Val, len(parts))
				for j, p := range parts {
					l[j] = p.Get(i)
				}
				return ref.List(l)
			}}, nil
	}
	es := Leaves[t.Raw]
	if len(es) == 0 {
		return nil, fmt.Errorf("val: no leaf column for %q", t.Raw)
	}
	i := 0
	if pick != nil && len(es) > 1 {
		i = pick(len(es))
	}
	return es[i].New(), nil
}
