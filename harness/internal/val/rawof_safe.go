//go:build !(amd64 || arm64 || riscv64) || purego

package val

const HasRawOf = false

func regRawOf() {}
