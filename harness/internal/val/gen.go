package val

import (
	"fmt"
	"math/rand"
	"sort"
	"sync"

	"verif/internal/ref"
)

var leafTypes, cmpLeafTypes []string

var leafOnce sync.Once

func initLeafTypes() {
	for t, es := range Leaves {
		leafTypes = append(leafTypes, t)
		for _, e := range es {
			if e.Cmp {
				cmpLeafTypes = append(cmpLeafTypes, t)
				break
			}
		}
	}
	sort.Strings(leafTypes)
	sort.Strings(cmpLeafTypes)
}

func LeafTypes() []string    { leafOnce.Do(initLeafTypes); return leafTypes }
func CmpLeafTypes() []string { leafOnce.Do(initLeafTypes); return cmpLeafTypes }

func pickS(rng *rand.Rand, l []string) string { return l[rng.Intn(len(l))] }

// GenType returns a random valid type string of nesting depth <= depth.
func GenType(rng *rand.Rand, depth int) string {
	if depth <= 0 || rng.Intn(6) == 0 {
		return pickS(rng, LeafTypes())
	}
	switch rng.Intn(7) {
	case 0, 1:
		return "Array(" + GenType(rng, depth-1) + ")"
	case 2:
		for {
			l := pickS(rng, LeafTypes())
			if l != "Nothing" || rng.Intn(2) == 0 {
				return "Nullable(" + l + ")"
			}
		}
	case 3:
		return "LowCardinality(" + pickS(rng, CmpLeafTypes()) + ")"
	case 4:
		k := pickS(rng, CmpLeafTypes())
		if rng.Intn(3) == 0 {
			k = "LowCardinality(" + k + ")"
		}
		return "Map(" + k + ", " + GenType(rng, depth-1) + ")"
	case 5:
		n := 1 + rng.Intn(3)
		s := "Tuple("
		named := rng.Intn(3) == 0
		for i := 0; i < n; i++ {
			if i > 0 {
				s += ", "
			}
			if named {
				s += fmt.Sprintf("f%d ", i)
			}
			s += GenType(rng, depth-1)
		}
		return s + ")"
	default:
		return "Array(" + GenType(rng, depth-1) + ")"
	}
}

var strLens = []int{0, 0, 1, 1, 2, 3, 5, 8, 13, 126, 127, 128, 129, 255, 256, 16382, 16383, 16384, 16385}

// GenOpt tunes value generation.
type GenOpt struct {
	Dict    int  // LowCardinality: number of distinct values to aim for (0 = small random)
	BigStr  bool // allow strings around the 16 KiB boundary
	HugeStr bool // allow (rarely) strings of 64 KiB .. 1 MiB
	TailStr int  // >0: make the last string of the last row this long (block ends inside a big value)
	MaxElem int  // max elements of an inner array / map (default 4)
}

func randBytes(rng *rand.Rand, n int) []byte {
	b := make([]byte, n)
	switch rng.Intn(4) {
	case 0:
		for i := range b {
			b[i] = byte('a' + rng.Intn(26))
		}
	default:
		rng.Read(b)
	}
	return b
}

func fixedPattern(rng *rand.Rand, w int) []byte {
	b := make([]byte, w)
	switch rng.Intn(9) {
	case 0: // zero
	case 1:
		for i := range b {
			b[i] = 0xff
		}
	case 2: // max signed
		for i := range b {
			b[i] = 0xff
		}
		b[w-1] = 0x7f
	case 3: // min signed
		b[w-1] = 0x80
	case 4:
		b[0] = 1
	case 5:
		for i := range b {
			b[i] = 0xff
		}
		b[0] = 0xfe
	default:
		rng.Read(b)
	}
	return b
}

var floatBits32 = []uint32{0, 0x80000000, 0x7f800000, 0xff800000, 0x7fc00000, 0x7fc00001, 0xffc12345, 0x7f7fffff, 0x00000001, 0x3f800000}
var floatBits64 = []uint64{0, 0x8000000000000000, 0x7ff0000000000000, 0xfff0000000000000, 0x7ff8000000000000, 0x7ff8000000000001, 0xfff8123456789abc, 0x7fefffffffffffff, 1, 0x3ff0000000000000}

// GenLeaf generates one value of a leaf type.
func GenLeaf(rng *rand.Rand, t *ref.Type, o GenOpt) ref.Val {
	switch t.Base {
	case "String", "JSON":
		n := strLens[rng.Intn(len(strLens))]
		if n > 300 && (!o.BigStr || rng.Intn(4) != 0) {
			n = rng.Intn(20)
		}
		if o.HugeStr && rng.Intn(12) == 0 {
			n = []int{65535, 65536, 65537, 70000, 131072, 1 << 20}[rng.Intn(6)]
		}
		return ref.Leaf(randBytes(rng, n))
	case "Bool":
		return ref.Leaf([]byte{byte(rng.Intn(2))})
	case "Nothing":
		return ref.Leaf([]byte{0})
	case "Enum8", "Enum16":
		e := t.Enum[rng.Intn(len(t.Enum))]
		if t.Base == "Enum8" {
			return ref.Leaf([]byte{byte(int8(e.Val))})
		}
		return ref.Leaf(putLE(uint64(uint16(int16(e.Val))), 2))
	case "Float32":
		if rng.Intn(2) == 0 {
			return ref.Leaf(putLE(uint64(floatBits32[rng.Intn(len(floatBits32))]), 4))
		}
		return ref.Leaf(putLE(uint64(rng.Uint32()), 4))
	case "Float64":
		if rng.Intn(2) == 0 {
			return ref.Leaf(putLE(floatBits64[rng.Intn(len(floatBits64))], 8))
		}
		return ref.Leaf(putLE(rng.Uint64(), 8))
	case "Point":
		return ref.Leaf(append(putLE(floatBits64[rng.Intn(len(floatBits64))], 8), putLE(rng.Uint64(), 8)...))
	case "Date32":
		// documented range 1900-01-01 .. 2299-12-31
		d := int64(-25567) + rng.Int63n(120529+25567+1)
		switch rng.Intn(6) {
		case 0:
			d = -25567
		case 1:
			d = 120529
		case 2:
			d = -1
		}
		return ref.Leaf(putLE(uint64(int32(d)), 4))
	case "DateTime64":
		pow := int64(1)
		for i := 0; i < t.N; i++ {
			pow *= 10
		}
		lo, hi := int64(-2208988800), int64(10413791999)
		if t.N == 9 {
			lo, hi = -9223372036, 9223372035
		}
		sec := lo + rng.Int63n(hi-lo+1)
		switch rng.Intn(8) {
		case 0:
			sec = lo
		case 1:
			sec = hi
		case 2:
			sec = -1
		case 3:
			sec = 0
		}
		return ref.Leaf(putLE(uint64(sec*pow+rng.Int63n(pow)), 8))
	}
	w := t.Width()
	if w == 0 {
		panic("val: GenLeaf on non-leaf " + t.Raw)
	}
	if t.Base == "FixedString" {
		return ref.Leaf(randBytes(rng, w))
	}
	return ref.Leaf(fixedPattern(rng, w))
}

// GenVal generates one value of any type.
func GenVal(rng *rand.Rand, t *ref.Type, o GenOpt, pool map[string][]ref.Val) ref.Val {
	me := o.MaxElem
	if me == 0 {
		me = 4
	}
	switch t.Base {
	case "Array":
		n := 0
		if rng.Intn(3) != 0 {
			n = 1 + rng.Intn(me)
		}
		l := make([]ref.Val, n)
		for i := range l {
			l[i] = GenVal(rng, t.Args[0], o, pool)
		}
		return ref.List(l)
	case "Map":
		n := 0
		if rng.Intn(3) != 0 {
			n = 1 + rng.Intn(me)
		}
		l := make([]ref.Val, n)
		for i := range l {
			l[i] = ref.List([]ref.Val{GenVal(rng, t.Args[0], o, pool), GenVal(rng, t.Args[1], o, pool)})
		}
		return ref.List(l)
	case "Nullable":
		if rng.Intn(3) == 0 {
			return ref.Val{Null: true}
		}
		return GenVal(rng, t.Args[0], o, pool)
	case "Tuple":
		l := make([]ref.Val, len(t.Args))
		for i, a := range t.Args {
			l[i] = GenVal(rng, a, o, pool)
		}
		return ref.List(l)
	case "LowCardinality":
		// draw from a per-type dictionary pool so that the number of distinct values is controlled
		key := t.Raw
		p := pool[key]
		want := o.Dict
		if want == 0 {
			want = 1 + rng.Intn(5)
		}
		if len(p) < want && pool["exhausted:"+key] == nil {
			seen := map[string]bool{}
			for _, v := range p {
				seen[string(v.B)] = true
			}
			for tries := 0; len(p) < want && tries < want*20; tries++ {
				v := GenLeaf(rng, t.Args[0], GenOpt{})
				if len(p) >= 3 && t.Args[0].Width() >= 3 {
					// make it unique cheaply: counter in the low bytes
					b := append([]byte(nil), v.B...)
					b[0], b[1], b[2] = byte(len(p)), byte(len(p)>>8), byte(len(p)>>16)
					v = ref.Leaf(b)
				} else if t.Args[0].Base == "String" || t.Args[0].Base == "JSON" {
					v = ref.Leaf([]byte(fmt.Sprintf("%s#%d", v.B[:min(len(v.B), 4)], len(p))))
				}
				if !seen[string(v.B)] {
					seen[string(v.B)] = true
					p = append(p, v)
				}
			}
			pool[key] = p
			if len(p) < want {
				// the element type has fewer values than asked for: do not try again on every row
				pool["exhausted:"+key] = []ref.Val{{}}
			}
		}
		return p[rng.Intn(len(p))]
	}
	return GenLeaf(rng, t, o)
}

// GenColumn generates `rows` values for a type.
func GenColumn(rng *rand.Rand, t *ref.Type, rows int, o GenOpt) []ref.Val {
	pool := map[string][]ref.Val{}
	out := make([]ref.Val, rows)
	for i := range out {
		out[i] = GenVal(rng, t, o, pool)
	}
	// for a dictionary target, make sure every pool value appears at least once (when rows allow)
	if o.Dict > 0 && t.Base == "LowCardinality" {
		p := pool[t.Raw]
		for i := 0; i < len(p) && i < rows; i++ {
			out[i] = p[i]
		}
	}
	return out
}

var RowCounts = []int{0, 1, 2, 3, 7, 8, 9, 50, 127, 128, 129, 1000}

// Revisions on both sides of every block-affecting feature plus the defaults.
var BlockRevisions = []int{51902, 51903, 54453, 54454, 54460, 54475}

// InflateLastString replaces the last String/JSON leaf reachable in v (walking last elements)
// by an n-byte string; reports whether one was found.
func InflateLastString(v *ref.Val, t *ref.Type, n int, rng *rand.Rand) bool {
	if v.Null {
		return false
	}
	switch t.Base {
	case "String", "JSON":
		v.B = randBytes(rng, n)
		return true
	case "Array":
		if len(v.L) == 0 {
			return false
		}
		return InflateLastString(&v.L[len(v.L)-1], t.Args[0], n, rng)
	case "Nullable":
		return InflateLastString(v, t.Args[0], n, rng)
	case "Map":
		if len(v.L) == 0 {
			return false
		}
		p := &v.L[len(v.L)-1]
		return InflateLastString(&p.L[1], t.Args[1], n, rng)
	case "Tuple":
		return InflateLastString(&v.L[len(v.L)-1], t.Args[len(t.Args)-1], n, rng)
	}
	return false
}
