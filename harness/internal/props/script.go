package props

import (
	"context"
	"errors"
	"fmt"
	"math/rand"
	"strings"
	"time"

	"github.com/ClickHouse/ch-go"
	"github.com/ClickHouse/ch-go/proto"

	"verif/internal/core"
	"verif/internal/ref"
	"verif/internal/simnet"
	"verif/internal/val"
)

// srvPacket is one scripted server packet with its model meaning.
type srvPacket struct {
	Kind    string // data, totals, progress, profile, events, log, tablecolumns, exception, eos
	Block   *ref.Block
	Prog    ref.Progress
	Prof    ref.Profile
	Chain   []ref.Exception
	Method  int // 0: default of the packet kind; 1 NONE, 2 LZ4, 3 ZSTD (compressed connections only)
	Timeout int // virtual read timeouts before this packet
	// MidTimeout > 0: the packet arrives in two pieces (split after 1 + (MidTimeout-1) mod (len-1)
	// bytes) with a pause between them during which an armed read deadline would expire. The
	// library reads packet bodies without a deadline, so the pause must change nothing.
	MidTimeout int
}

// respScript: a generated server response with the client-side configuration.
type respScript struct {
	ClientRev, ServerRev int
	Comp                 ch.Compression
	Schema               []val.Entry // result schema (empty: no result expected)
	ResultMode           string      // typed | auto | single | none
	HasOnResult          bool
	Handlers             map[string]bool // progress, profile, events, event, logs, log
	FailAt               int             // index of the callback invocation that fails (-1 none)
	Packets              []srvPacket
	Insert               bool
	CutAfter             int64 // > 0: the connection ends (EOF) after this many bytes of the response
}

func (s *respScript) Neg() int {
	if s.ServerRev < s.ClientRev {
		return s.ServerRev
	}
	return s.ClientRev
}

func (s *respScript) Kinds() string {
	var k []string
	for _, p := range s.Packets {
		x := p.Kind
		if p.Block != nil {
			x += fmt.Sprintf("(%d)", p.Block.Rows)
		}
		if p.Kind == "exception" {
			x += fmt.Sprintf("(depth %d)", len(p.Chain))
		}
		if p.MidTimeout > 0 {
			x += fmt.Sprintf("(pause@%d)", p.MidTimeout)
		}
		if p.Timeout > 0 {
			x = fmt.Sprintf("timeout*%d,", p.Timeout) + x
		}
		k = append(k, x)
	}
	return strings.Join(k, " ")
}

var errInjected = errors.New("verif: injected callback failure")

func genEventsBlock(rng *rand.Rand, rows int, signed bool) *ref.Block {
	u32 := func() ref.Val {
		return ref.Leaf([]byte{byte(rng.Intn(256)), byte(rng.Intn(256)), byte(rng.Intn(256)), byte(rng.Intn(100))})
	}
	u64 := func() ref.Val {
		b := make([]byte, 8)
		rng.Read(b)
		if signed {
			b[7] &= 0x7f
		}
		return ref.Leaf(b)
	}
	str := func() ref.Val { return ref.Leaf([]byte(c17Str(rng))) }
	vt := "UInt64"
	if signed {
		vt = "Int64"
	}
	b := &ref.Block{Rows: rows, Cols: []ref.Col{{Name: "host_name", Type: "String"}, {Name: "current_time", Type: "DateTime"}, {Name: "thread_id", Type: "UInt64"},
		{Name: "type", Type: "Enum8('increment' = 1, 'gauge' = 2)"}, {Name: "name", Type: "String"}, {Name: "value", Type: vt}}}
	for i := 0; i < rows; i++ {
		b.Cols[0].Vals = append(b.Cols[0].Vals, str())
		b.Cols[1].Vals = append(b.Cols[1].Vals, u32())
		b.Cols[2].Vals = append(b.Cols[2].Vals, u64())
		b.Cols[3].Vals = append(b.Cols[3].Vals, ref.Leaf([]byte{byte(1 + rng.Intn(2))}))
		b.Cols[4].Vals = append(b.Cols[4].Vals, str())
		b.Cols[5].Vals = append(b.Cols[5].Vals, u64())
	}
	return b
}

func genLogBlock(rng *rand.Rand, rows int) *ref.Block {
	b := &ref.Block{Rows: rows, Cols: []ref.Col{{Name: "event_time", Type: "DateTime"}, {Name: "event_time_microseconds", Type: "UInt32"}, {Name: "host_name", Type: "String"},
		{Name: "query_id", Type: "String"}, {Name: "thread_id", Type: "UInt64"}, {Name: "priority", Type: "Int8"}, {Name: "source", Type: "String"}, {Name: "text", Type: "String"}}}
	for i := 0; i < rows; i++ {
		for j := range b.Cols {
			t, _ := ref.ParseType(b.Cols[j].Type)
			b.Cols[j].Vals = append(b.Cols[j].Vals, val.GenLeaf(rng, t, val.GenOpt{}))
		}
	}
	return b
}

func genResponse(rng *rand.Rand, reps []int) *respScript {
	s := &respScript{FailAt: -1, Handlers: map[string]bool{}}
	s.ClientRev = reps[rng.Intn(len(reps))]
	s.ServerRev = reps[rng.Intn(len(reps))]
	if rng.Intn(2) == 0 {
		s.ClientRev = 54460
	}
	if rng.Intn(2) == 0 {
		s.ServerRev = 54460 + rng.Intn(16)
	}
	s.Comp = c02Compressions[rng.Intn(len(c02Compressions))]
	nc := rng.Intn(4)
	for i := 0; i < nc; i++ {
		s.Schema = append(s.Schema, val.Catalogue[rng.Intn(len(val.Catalogue))])
	}
	s.ResultMode = []string{"typed", "typed", "auto", "single", "none"}[rng.Intn(5)]
	if nc == 0 {
		s.ResultMode = "none"
	}
	if s.ResultMode == "single" {
		s.Schema = s.Schema[:1]
	}
	if s.ResultMode == "auto" {
		// only inferable schemas
		var keep []val.Entry
		for _, e := range s.Schema {
			var a proto.ColAuto
			if a.Infer(proto.ColumnType(e.Type)) == nil {
				keep = append(keep, e)
			}
		}
		s.Schema = keep
		if len(keep) == 0 {
			s.ResultMode = "none"
		}
	}
	s.HasOnResult = rng.Intn(4) != 0
	for _, h := range []string{"progress", "profile", "events", "event", "logs", "log"} {
		s.Handlers[h] = rng.Intn(3) != 0
	}
	if rng.Intn(6) == 0 {
		s.FailAt = rng.Intn(6)
	}
	neg := s.Neg()
	n := 1 + rng.Intn(12)
	if rng.Intn(10) == 0 {
		n = 20 + rng.Intn(20)
	}
	mkBlock := func(rows int) *ref.Block {
		b := &ref.Block{Rows: rows, Info: ref.BlockInfo{Bucket: -1}}
		for i, e := range s.Schema {
			t, _ := ref.ParseType(e.Type)
			b.Cols = append(b.Cols, ref.Col{Name: fmt.Sprintf("c%d", i), Type: e.Type, Vals: val.GenColumn(rng, t, rows, val.GenOpt{MaxElem: 2})})
		}
		return b
	}
	if len(s.Schema) > 0 && rng.Intn(2) == 0 {
		s.Packets = append(s.Packets, srvPacket{Kind: "data", Block: mkBlock(0)}) // header
	}
	for i := 0; i < n; i++ {
		var p srvPacket
		switch k := rng.Intn(12); {
		case k < 4 && len(s.Schema) > 0:
			p = srvPacket{Kind: "data", Block: mkBlock([]int{0, 1, 2, 7, 40}[rng.Intn(5)])}
		case k == 4 && len(s.Schema) > 0:
			p = srvPacket{Kind: "totals", Block: mkBlock(rng.Intn(2))}
		case k == 5:
			p = srvPacket{Kind: "data", Block: &ref.Block{}} // empty end marker mid-stream
		case k == 6:
			p = srvPacket{Kind: "profile", Prof: ref.Profile{Rows: c17U64(rng), Blocks: c17U64(rng), Bytes: c17U64(rng), AppliedLimit: rng.Intn(2) == 0, RowsBeforeLimit: c17U64(rng), CalcRowsBeforeLimit: rng.Intn(2) == 0}}
		case k == 7 && neg >= ref.RevProfileEvents:
			p = srvPacket{Kind: "events", Block: genEventsBlock(rng, rng.Intn(4), rng.Intn(2) == 0)}
		case k == 8 && neg >= ref.RevServerLogs:
			p = srvPacket{Kind: "log", Block: genLogBlock(rng, rng.Intn(4))}
		case k == 9:
			p = srvPacket{Kind: "tablecolumns"}
		default:
			rows := c17U64(rng)
			if rng.Intn(3) == 0 {
				rows = 0
			}
			p = srvPacket{Kind: "progress", Prog: ref.Progress{Rows: rows % (1 << 40), Bytes: c17U64(rng) % (1 << 40), TotalRows: c17U64(rng), WroteRows: c17U64(rng), WroteBytes: c17U64(rng), ElapsedNs: c17U64(rng)}}
		}
		s.Packets = append(s.Packets, p)
	}
	if rng.Intn(4) == 0 {
		d := 1 + rng.Intn(6)
		switch rng.Intn(8) {
		case 0:
			d = 14 + rng.Intn(6) // around 16
		case 1:
			d = 30 + rng.Intn(40)
		case 2:
			d = 250 + rng.Intn(10) // around 255 / 256
		}
		var chain []ref.Exception
		for i := 0; i < d; i++ {
			code := int32(rng.Intn(1100))
			if rng.Intn(4) == 0 {
				code = int32(rng.Uint32())
			}
			chain = append(chain, ref.Exception{Code: code, Name: "DB::Exception" + fmt.Sprint(i), Message: c17Str(rng), Stack: c17Str(rng)})
		}
		s.Packets = append(s.Packets, srvPacket{Kind: "exception", Chain: chain})
	} else {
		s.Packets = append(s.Packets, srvPacket{Kind: "eos"})
	}
	return s
}

func (s *respScript) encode(p srvPacket, neg int) []byte {
	compressed := s.Comp != ch.CompressionDisabled
	switch p.Kind {
	case "data":
		return simnet.PacketData(neg, ref.ServerDataCode, p.Block, compressed, c03Method(p, ref.MethodLZ4))
	case "totals":
		return simnet.PacketData(neg, ref.ServerTotalsCode, p.Block, compressed, c03Method(p, ref.MethodZSTD))
	case "events":
		return simnet.PacketData(neg, ref.ServerProfileEventsCode, p.Block, false, 0)
	case "log":
		return simnet.PacketData(neg, ref.ServerLogCode, p.Block, false, 0)
	case "progress":
		return simnet.PacketProgress(neg, p.Prog)
	case "profile":
		return simnet.PacketProfile(p.Prof)
	case "tablecolumns":
		return simnet.PacketTableColumns(ref.TableColumns{First: "t", Second: "columns format version: 1\n"})
	case "exception":
		return simnet.PacketException(p.Chain)
	case "eos":
		return simnet.PacketEnd()
	}
	panic("bad kind " + p.Kind)
}

// c03Method: the compression method of one Data packet. Every frame names its own method, so a
// server may mix them on one connection (NONE for small blocks, LZ4 / ZSTD otherwise).
func c03Method(p srvPacket, def byte) byte {
	switch p.Method {
	case 1:
		return ref.MethodNone
	case 2:
		return ref.MethodLZ4
	case 3:
		return ref.MethodZSTD
	}
	return def
}

// ---- model of the receive loop --------------------------------------------------------

// modelTrace computes the expected callback trace and outcome.
func (s *respScript) modelTrace() (trace []string, outcome string) {
	neg := s.Neg()
	calls := 0
	call := func(desc string) bool { // returns true when this invocation fails
		trace = append(trace, desc)
		fail := calls == s.FailAt
		calls++
		return fail
	}
	first := true
	for _, p := range s.Packets {
		switch p.Kind {
		case "data", "totals":
			b := p.Block
			if len(b.Cols) == 0 && b.Rows == 0 {
				continue // end marker
			}
			if s.ResultMode == "none" {
				if b.Rows > 0 {
					return trace, "error:rows-without-target"
				}
			}
			if s.HasOnResult {
				desc := "result " + blockFingerprint(b)
				if s.ResultMode == "none" {
					desc = fmt.Sprintf("result rows=%d cols=%d", b.Rows, len(b.Cols))
				}
				if call(desc) {
					return trace, "error:injected"
				}
			} else {
				if !first {
					return trace, "error:no-onresult"
				}
				if b.Rows > 0 {
					first = false
				}
			}
		case "progress":
			if s.Handlers["progress"] {
				pr := p.Prog
				if neg < ref.RevClientWriteInfo {
					pr.WroteRows, pr.WroteBytes = 0, 0
				}
				if neg < ref.RevServerQueryTime {
					pr.ElapsedNs = 0
				}
				if call(fmt.Sprintf("progress %+v", pr)) {
					return trace, "error:injected"
				}
			}
		case "profile":
			if s.Handlers["profile"] {
				if call(fmt.Sprintf("profile %+v", p.Prof)) {
					return trace, "error:injected"
				}
			}
		case "events":
			if p.Block.Rows == 0 && len(p.Block.Cols) == 0 {
				continue
			}
			if !s.Handlers["events"] && !s.Handlers["event"] {
				continue
			}
			if s.Handlers["events"] {
				if call("events " + blockFingerprint(p.Block)) {
					return trace, "error:injected"
				}
			}
			if s.Handlers["event"] {
				for i := 0; i < p.Block.Rows; i++ {
					if call("event " + rowFingerprint(p.Block, i)) {
						return trace, "error:injected"
					}
				}
			}
		case "log":
			if p.Block.Rows == 0 && len(p.Block.Cols) == 0 {
				continue
			}
			if !s.Handlers["logs"] && !s.Handlers["log"] {
				continue
			}
			if s.Handlers["logs"] {
				desc := fmt.Sprintf("logs rows=%d", p.Block.Rows)
				for i := 0; i < p.Block.Rows; i++ {
					desc += " " + rowFingerprint(p.Block, i)
				}
				if call(desc) {
					return trace, "error:injected"
				}
			}
			if s.Handlers["log"] {
				for i := 0; i < p.Block.Rows; i++ {
					if call("log " + rowFingerprint(p.Block, i)) {
						return trace, "error:injected"
					}
				}
			}
		case "exception":
			return trace, "exception"
		case "eos":
			return trace, "nil"
		}
	}
	return trace, "error:eof"
}

func blockFingerprint(b *ref.Block) string {
	var sb strings.Builder
	fmt.Fprintf(&sb, "rows=%d cols=%d", b.Rows, len(b.Cols))
	for _, c := range b.Cols {
		fmt.Fprintf(&sb, " %s:%016x", c.Name, valsFingerprint(c.Vals))
	}
	return sb.String()
}

func rowFingerprint(b *ref.Block, i int) string {
	var sb strings.Builder
	for _, c := range b.Cols {
		if c.Name == "event_time_microseconds" {
			continue // not exposed by proto.Log
		}
		fmt.Fprintf(&sb, "%x|", c.Vals[i].B)
	}
	return sb.String()
}

// ---- execution -------------------------------------------------------------------------

type execResult struct {
	Trace    []string
	Err      error
	Returned bool
	Conn     *simnet.Conn
	Client   *ch.Client
	SrvErr   error
	ConnErr  error
}

// runResponse executes the script against the real client. seg (optional) shapes delivery.
func runResponse(s *respScript, seg func(avail, want int) int) *execResult {
	neg := s.Neg()
	script := &simnet.Script{Rev: s.ServerRev}
	sim := newSim(script)
	sim.Conn.Seg = seg
	script.OnQuery = func(*ref.Query) []simnet.Item {
		var items []simnet.Item
		for i, p := range s.Packets {
			for k := 0; k < p.Timeout; k++ {
				items = append(items, simnet.Item{Timeout: true})
			}
			data := s.encode(p, neg)
			if p.MidTimeout > 0 && len(data) > 1 {
				off := 1 + (p.MidTimeout-1)%(len(data)-1)
				items = append(items, simnet.Item{Data: data[:off], Packet: i}, simnet.Item{Timeout: true}, simnet.Item{Data: data[off:], Packet: i})
				continue
			}
			items = append(items, simnet.Item{Data: data, Packet: i})
		}
		return items
	}
	res := &execResult{Conn: sim.Conn}
	opt := ch.Options{ProtocolVersion: s.ClientRev, Compression: s.Comp, ReadTimeout: 2 * time.Second}
	// a generous overall deadline: a healthy run takes milliseconds; a client that lost framing
	// and waits for bytes that never come is ended by it instead of by the watchdog
	ctx, cancelCtx := context.WithTimeout(context.Background(), 8*time.Second)
	defer cancelCtx()
	calls := 0
	fail := func() error {
		f := calls == s.FailAt
		calls++
		if f {
			return errInjected
		}
		return nil
	}
	q := ch.Query{Body: "SELECT"}
	var targets []val.LibCol
	var ares proto.Results
	schemaTypes := make([]*ref.Type, len(s.Schema))
	for i, e := range s.Schema {
		schemaTypes[i], _ = ref.ParseType(e.Type)
	}
	switch s.ResultMode {
	case "typed":
		var rs proto.Results
		for i, e := range s.Schema {
			c := e.New()
			targets = append(targets, c)
			rs = append(rs, proto.ResultColumn{Name: fmt.Sprintf("c%d", i), Data: c.Col()})
		}
		q.Result = rs
	case "single":
		c := s.Schema[0].New()
		targets = append(targets, c)
		q.Result = proto.ResultColumn{Name: "c0", Data: c.Col()}
	case "auto":
		q.Result = ares.Auto()
	}
	snapshot := func(b proto.Block) string {
		var sb strings.Builder
		fmt.Fprintf(&sb, "rows=%d cols=%d", b.Rows, b.Columns)
		if s.ResultMode == "auto" {
			for i, rc := range ares {
				if i >= len(schemaTypes) {
					break
				}
				vs, err := val.ReadCol(rc.Data, schemaTypes[i])
				if err != nil {
					fmt.Fprintf(&sb, " %s:ERR(%v)", rc.Name, err)
					continue
				}
				fmt.Fprintf(&sb, " %s:%016x", rc.Name, valsFingerprint(vs))
			}
			return sb.String()
		}
		for i, t := range targets {
			var vs []ref.Val
			if p := core.Recover(func() { vs = readAll(t) }); p != "" {
				fmt.Fprintf(&sb, " c%d:PANIC", i)
				continue
			}
			fmt.Fprintf(&sb, " c%d:%016x", i, valsFingerprint(vs))
		}
		return sb.String()
	}
	if s.HasOnResult {
		q.OnResult = func(ctx context.Context, b proto.Block) error {
			if s.ResultMode == "none" {
				res.Trace = append(res.Trace, fmt.Sprintf("result rows=%d cols=%d", b.Rows, b.Columns))
			} else {
				res.Trace = append(res.Trace, "result "+snapshot(b))
			}
			return fail()
		}
	}
	neg2 := neg
	if s.Handlers["progress"] {
		q.OnProgress = func(ctx context.Context, p proto.Progress) error {
			_ = neg2
			res.Trace = append(res.Trace, fmt.Sprintf("progress %+v", ref.Progress{Rows: p.Rows, Bytes: p.Bytes, TotalRows: p.TotalRows, WroteRows: p.WroteRows, WroteBytes: p.WroteBytes, ElapsedNs: p.ElapsedNs}))
			return fail()
		}
	}
	if s.Handlers["profile"] {
		q.OnProfile = func(ctx context.Context, p proto.Profile) error {
			res.Trace = append(res.Trace, fmt.Sprintf("profile %+v", ref.Profile{Rows: p.Rows, Blocks: p.Blocks, Bytes: p.Bytes, AppliedLimit: p.AppliedLimit, RowsBeforeLimit: p.RowsBeforeLimit, CalcRowsBeforeLimit: p.CalculatedRowsBeforeLimit}))
			return fail()
		}
	}
	evStr := func(e ch.ProfileEvent) string {
		return fmt.Sprintf("%x|%s|%s|%02x|%x|%s|", e.Host, leU32(uint32(e.Time.Unix())), leU64(e.ThreadID), byte(e.Type), e.Name, leU64(uint64(e.Value)))
	}
	if s.Handlers["events"] {
		q.OnProfileEvents = func(ctx context.Context, es []ch.ProfileEvent) error {
			res.Trace = append(res.Trace, "events "+eventsFingerprint(es))
			return fail()
		}
	}
	if s.Handlers["event"] {
		q.OnProfileEvent = func(ctx context.Context, e ch.ProfileEvent) error {
			res.Trace = append(res.Trace, "event "+evStr(e))
			return fail()
		}
	}
	logStr := func(l ch.Log) string {
		return fmt.Sprintf("%s|%x|%x|%s|%02x|%x|%x|", leU32(uint32(l.Time.Unix())), l.Host, l.QueryID, leU64(l.ThreadID), byte(l.Priority), l.Source, l.Text)
	}
	if s.Handlers["logs"] {
		q.OnLogs = func(ctx context.Context, ls []ch.Log) error {
			res.Trace = append(res.Trace, "logs "+logsFingerprint(ls))
			return fail()
		}
	}
	if s.Handlers["log"] {
		q.OnLog = func(ctx context.Context, l ch.Log) error {
			res.Trace = append(res.Trace, "log "+logStr(l))
			return fail()
		}
	}
	res.Returned = runWithWatchdog(30*time.Second, func() {
		if err := sim.connect(ctx, opt); err != nil {
			res.ConnErr = err
			return
		}
		res.Client = sim.Client
		if s.CutAfter > 0 {
			// the server goes away after CutAfter bytes of the response
			d := sim.Conn.Delivered()
			sim.Conn.Locked(func() { sim.Conn.ReadCutAfter = d + s.CutAfter })
		}
		res.Err = sim.Client.Do(ctx, q)
	})
	res.SrvErr = sim.Srv.Err
	return res
}

func leU32(x uint32) string {
	return fmt.Sprintf("%02x%02x%02x%02x", byte(x), byte(x>>8), byte(x>>16), byte(x>>24))
}
func leU64(x uint64) string { return leU32(uint32(x)) + leU32(uint32(x>>32)) }

// eventsFingerprint must equal blockFingerprint of the events block: rebuild the columns.
func eventsFingerprint(es []ch.ProfileEvent) string {
	cols := make([][]ref.Val, 6)
	for _, e := range es {
		cols[0] = append(cols[0], ref.Leaf([]byte(e.Host)))
		cols[1] = append(cols[1], ref.Leaf(le4(uint32(e.Time.Unix()))))
		cols[2] = append(cols[2], ref.Leaf(le8(e.ThreadID)))
		cols[3] = append(cols[3], ref.Leaf([]byte{byte(e.Type)}))
		cols[4] = append(cols[4], ref.Leaf([]byte(e.Name)))
		cols[5] = append(cols[5], ref.Leaf(le8(uint64(e.Value))))
	}
	names := []string{"host_name", "current_time", "thread_id", "type", "name", "value"}
	var sb strings.Builder
	fmt.Fprintf(&sb, "rows=%d cols=%d", len(es), 6)
	for i, n := range names {
		fmt.Fprintf(&sb, " %s:%016x", n, valsFingerprint(cols[i]))
	}
	return sb.String()
}

func logsFingerprint(ls []ch.Log) string {
	// event_time_microseconds is not exposed: the model fingerprint of log blocks skips it too
	var sb strings.Builder
	fmt.Fprintf(&sb, "rows=%d", len(ls))
	for _, l := range ls {
		sb.WriteString(" " + fmt.Sprintf("%s|%x|%x|%s|%02x|%x|%x|", leU32(uint32(l.Time.Unix())), l.Host, l.QueryID, leU64(l.ThreadID), byte(l.Priority), l.Source, l.Text))
	}
	return sb.String()
}

func le4(x uint32) []byte { return []byte{byte(x), byte(x >> 8), byte(x >> 16), byte(x >> 24)} }
func le8(x uint64) []byte { return append(le4(uint32(x)), le4(uint32(x>>32))...) }
