package props

import (
	"context"
	"errors"
	"fmt"
	"io"
	"math/rand"
	"strings"
	"sync"
	"time"

	"github.com/ClickHouse/ch-go"
	"github.com/ClickHouse/ch-go/proto"

	"verif/internal/ref"
	"verif/internal/simnet"
)

// scn is a query scenario for the fault enumerations (C04, C10, C12).
type scn struct {
	Name      string
	Comp      ch.Compression
	Insert    bool
	Stream    int // OnInput rounds (0: single block insert)
	Telemetry bool
	External  bool
	Otel      bool
	EndsExc   bool // the fault-free response ends with an exception instead of EndOfStream
	// ExtraHeaders: the server repeats the zero-row header block of an INSERT this many times (a
	// server the fault-free client never finishes with: only used with cancellation)
	ExtraHeaders int
	NoExtName    bool // external data without a table name (the library supplies the default)
	DeepExc      int  // the terminal exception carries this many nested causes
	PrefaceExc   bool // an earlier query on the same client ended with a server exception
}

var scenarios = []scn{
	{Name: "select"},
	{Name: "select+telemetry", Telemetry: true},
	{Name: "insert", Insert: true},
	{Name: "insert-stream", Insert: true, Stream: 3, Telemetry: true},
	{Name: "select-lz4", Comp: ch.CompressionLZ4, Telemetry: true},
	{Name: "insert-stream-zstd", Insert: true, Stream: 2, Comp: ch.CompressionZSTD},
	{Name: "select-external", External: true},
	{Name: "select-external-unnamed", External: true, NoExtName: true, Telemetry: true},
	{Name: "insert-none", Insert: true, Comp: ch.CompressionNone},
	{Name: "select-exception", EndsExc: true},
	{Name: "insert-exception", Insert: true, Stream: 2, EndsExc: true},
	{Name: "select-deep-exception", EndsExc: true, DeepExc: 40},
	{Name: "select-after-exception", Telemetry: true, PrefaceExc: true},
	{Name: "insert-stream-after-exception", Insert: true, Stream: 2, PrefaceExc: true},
}

// fault is one planned perturbation.
type fault struct {
	Kind  string // exception | cut | write-error | callback-fail | unknown-packet | unexpected-packet | exception+write-error | cancel | deadline | deadline-passed | foreign-close | stall
	Gate  string // gate occurrence at which it fires (kinds that need one)
	K     int64  // byte offset (cut, write-error) or unexpected packet kind index
	Reset bool
	// MidPacket (cut): byte K is not the first byte of a server packet in the pilot trace
	MidPacket bool
	Mask      int
	Hold      bool // hold the gated goroutine until the injected packet has been consumed (steers the schedule only)
}

func (f *fault) String() string {
	if f == nil {
		return "none"
	}
	s := f.Kind
	if f.Gate != "" {
		s += "@" + f.Gate
	}
	if f.Kind == "corrupt" {
		s += fmt.Sprintf("@byte%d^%02x", f.K, f.Mask)
	}
	if f.Hold {
		s += "+hold"
	}
	if f.Kind == "cut" || f.Kind == "write-error" || f.Kind == "exception+write-error" || f.Kind == "exception-during-write" || f.Kind == "stall" || f.Kind == "stall+callback-fail" {
		s += fmt.Sprintf("@byte%d", f.K)
	}
	if f.Kind == "unexpected-packet" {
		s += fmt.Sprintf("(%s)", unexpectedPackets[int(f.K)%len(unexpectedPackets)].name)
	}
	return s
}

var unexpectedPackets = []struct {
	name string
	data []byte
}{
	{"pong", []byte{ref.ServerPongCode}},
	{"hello", []byte{ref.ServerHelloCode}},
	{"extremes", []byte{ref.ServerExtremesCode}},
	{"tables-status", []byte{9}},
	{"part-uuids", []byte{12}},
	{"read-task-request", []byte{13}},
}

type runOut struct {
	Err                    error
	Returned               bool
	Gates                  []string
	Hooks                  []string
	Sim                    *Sim
	Fired                  bool
	FiredAt                int64 // logical clock (gate index) when the fault fired
	HandshakeW             int64 // client bytes written by the handshake
	HandshakeR             int64 // server bytes delivered during the handshake
	InjectedAfterEnd       bool
	WrittenAtReturn        int64
	PendingAtReturn        int
	SrvErrAtReturn         error
	CloseCallsAtReturn     int
	ClosedAtReturn         bool
	PacketsBegunAfterFault int
	cancel                 context.CancelFunc
	Elapsed                time.Duration
	// stuck-state evidence captured when the watchdog fired (before the context is cancelled)
	StuckReaders int
	StuckArmed   bool
	StuckQueue   int
	StuckStacks  string
	StuckBusy    bool // a library goroutine was still computing when the extended watchdog gave up
	FiredWall    time.Time
	ReturnWall   time.Time
}

func scnBlock(rng *rand.Rand, rows int) *ref.Block {
	b := &ref.Block{Rows: rows, Info: ref.BlockInfo{Bucket: -1}, Cols: []ref.Col{{Name: "a", Type: "UInt32"}, {Name: "b", Type: "String"}}}
	for i := 0; i < rows; i++ {
		b.Cols[0].Vals = append(b.Cols[0].Vals, ref.Leaf(le4(rng.Uint32())))
		b.Cols[1].Vals = append(b.Cols[1].Vals, ref.Leaf([]byte(fmt.Sprintf("row-%d-%d", i, rng.Intn(1000)))))
	}
	return b
}

var errCloseNotify = errors.New("sim: close_notify: broken pipe")

// runScenario executes the scenario with an optional fault. mkCtx lets callers supply the context.
func runScenario(sc scn, seed int64, f *fault, readTimeout time.Duration, baseCtx func() (context.Context, context.CancelFunc)) *runOut {
	return runScenarioWith(sc, seed, f, readTimeout, baseCtx, nil)
}

func runScenarioWith(sc scn, seed int64, f *fault, readTimeout time.Duration, baseCtx func() (context.Context, context.CancelFunc), onReady func(*runOut)) *runOut {
	rng := rand.New(rand.NewSource(seed))
	out := &runOut{}
	var mu sync.Mutex
	counts := map[string]int{}
	frozen := false
	prefacing := false
	script := &simnet.Script{Rev: 54460}
	sim := newSim(script)
	if seed%2 == 1 {
		// a transport whose Close reports an error (tls close_notify to a dead peer)
		sim.Conn.CloseErr = errCloseNotify
	}
	out.Sim = sim
	compressed := sc.Comp != ch.CompressionDisabled
	ctx, cancel := baseCtx()
	out.cancel = cancel
	defer cancel()
	var client *ch.Client
	var foreign sync.WaitGroup
	exc := []ref.Exception{{Code: 241, Name: "DB::Exception", Message: "Memory limit exceeded (injected)", Stack: "stack"}, {Code: 999, Name: "DB::Nested", Message: "cause", Stack: ""}}

	for i := 0; i < sc.DeepExc; i++ {
		// low byte 5 (EndOfStream) / 1 (Data) in the codes: leftovers of an under-read chain parse as packets
		exc = append(exc, ref.Exception{Code: int32(0x105 + 0x100*i - 4*(i%2)), Name: fmt.Sprintf("DB::Cause%d", i), Message: "nested cause", Stack: ""})
	}
	fire := func(g string) {
		if sim.Conn.FinalStarted() {
			// the response's own final packet is already on its way into the client: whatever is
			// injected now comes after the end of the query
			out.InjectedAfterEnd = true
		}
		switch f.Kind {
		case "exception", "exception+write-error":
			sim.Conn.Locked(func() { sim.Srv.Aborted = true })
			sim.Conn.DropQueuedAfterCurrent()
			sim.Conn.Push(simnet.Item{Data: simnet.PacketException(exc)})
			if f.Hold {
				// after-quiescence release: keep the gated goroutine here until the receiver has
				// consumed the exception and the cancellation has had time to propagate
				for i := 0; i < 200 && sim.Conn.QueueLen() > 0; i++ {
					time.Sleep(time.Millisecond)
				}
				time.Sleep(3 * time.Millisecond)
			}
		case "exception-during-write":
			// two faults in a fixed order: the write that is waiting at this gate stays in flight until
			// the receiver has consumed the exception (the query context is cancelled by then), and
			// only then fails after K more bytes
			sim.Conn.Locked(func() { sim.Srv.Aborted = true })
			sim.Conn.DropQueuedAfterCurrent()
			sim.Conn.Push(simnet.Item{Data: simnet.PacketException(exc)})
			for i := 0; i < 200 && sim.Conn.QueueLen() > 0; i++ {
				time.Sleep(time.Millisecond)
			}
			time.Sleep(3 * time.Millisecond)
			w := sim.Conn.WrittenBytes()
			sim.Conn.Locked(func() { sim.Conn.WriteFailAfter = w + f.K })
		case "exception+cancel":
			// the server's exception is consumed first, then the caller's own context ends before Do
			// has returned (a client deadline equal to the server's max_execution_time)
			sim.Conn.Locked(func() { sim.Srv.Aborted = true })
			sim.Conn.DropQueuedAfterCurrent()
			sim.Conn.Push(simnet.Item{Data: simnet.PacketException(exc)})
			for i := 0; i < 200 && sim.Conn.QueueLen() > 0; i++ {
				time.Sleep(time.Millisecond)
			}
			time.Sleep(3 * time.Millisecond)
			cancel()
		case "unknown-packet":
			sim.Conn.PushFront(simnet.Item{Data: []byte{byte(40 + f.K%80), 0, 1, 2}})
		case "unexpected-packet":
			sim.Conn.PushFront(simnet.Item{Data: unexpectedPackets[int(f.K)%len(unexpectedPackets)].data})
		case "cancel", "deadline":
			cancel()
		case "foreign-close":
			if client != nil {
				foreign.Add(1)
				go func() { defer foreign.Done(); _ = client.Close() }()
			}
		case "foreign-close-late":
			if client != nil {
				foreign.Add(1)
				go func() {
					defer foreign.Done()
					time.Sleep(time.Duration(1+f.K%4) * time.Millisecond) // lands around or after the end of Do
					_ = client.Close()
				}()
			}
		case "drop-connection":
			sim.Conn.DropQueuedAfterCurrent()
			sim.Conn.Push(simnet.Item{EOF: true})
		}
	}
	// gate: called at every gate occurrence (any goroutine).
	gate := func(name string) (failCallback bool) {
		mu.Lock()
		if prefacing {
			// the client's earlier history is not part of the query under test
			mu.Unlock()
			return false
		}
		n := counts[name]
		counts[name] = n + 1
		full := name
		if !strings.HasPrefix(name, "write:") && !strings.HasPrefix(name, "srv:") {
			full = fmt.Sprintf("%s#%d", name, n)
		}
		out.Gates = append(out.Gates, full)
		match := f != nil && f.Gate == full && !out.Fired && !frozen
		if match {
			out.Fired = true
			out.FiredAt = int64(len(out.Gates))
			out.FiredWall = time.Now()
		}
		mu.Unlock()
		if match {
			if f.Kind == "callback-fail" || f.Kind == "callback-fail-wrapping-exception" || f.Kind == "stall+callback-fail" {
				return true
			}
			if f.Kind == "cancel+callback-error" {
				// the context ends while the callback runs, and the callback returns an error of its own
				cancel()
				return true
			}
			fire(full)
		}
		return false
	}
	sim.Conn.OnGate = func(g string) { gate(g) }
	ch.VerifSetHook(func(name string) {
		mu.Lock()
		out.Hooks = append(out.Hooks, name)
		mu.Unlock()
		gate("hook:" + name)
	})
	defer ch.VerifSetHook(nil)

	// server packets, each preceded by a gate item
	pk := 0
	withGates := func(packets ...[]byte) []simnet.Item {
		var items []simnet.Item
		for _, p := range packets {
			items = append(items, simnet.Item{Gate: fmt.Sprintf("srv:before:%d", pk)}, simnet.Item{Data: p, Packet: pk})
			pk++
		}
		return items
	}
	prog := func() []byte {
		return simnet.PacketProgress(54460, ref.Progress{Rows: uint64(1 + rng.Intn(100)), Bytes: uint64(rng.Intn(10000))})
	}
	data := func(rows int) []byte {
		return simnet.PacketData(54460, ref.ServerDataCode, scnBlock(rng, rows), compressed, ref.MethodLZ4)
	}
	script.OnQuery = func(rq *ref.Query) []simnet.Item {
		if rq.Body == "PREFACE" {
			return []simnet.Item{{Data: simnet.PacketException([]ref.Exception{{Code: 60, Name: "DB::Exception", Message: "no such table (preface)"}})}}
		}
		if sc.Insert {
			hs := [][]byte{data(0)}
			for i := 0; i < sc.ExtraHeaders; i++ {
				hs = append(hs, data(0))
			}
			return withGates(hs...)
		}
		ps := [][]byte{data(0), data(3), prog(), simnet.PacketProfile(ref.Profile{Rows: 3, Blocks: 1, Bytes: 100})}
		if sc.Telemetry {
			ps = append(ps, simnet.PacketData(54460, ref.ServerProfileEventsCode, genEventsBlock(rng, 2, false), false, 0),
				simnet.PacketData(54460, ref.ServerLogCode, genLogBlock(rng, 1), false, 0))
		}
		if sc.EndsExc {
			ps = append(ps, simnet.PacketException(exc))
		} else {
			ps = append(ps, data(2), simnet.PacketEnd())
		}
		items := withGates(ps...)
		items[len(items)-1].Final = true
		return items
	}
	script.OnData = func(i int, b *ref.Block) []simnet.Item {
		if sc.Telemetry {
			return withGates(prog(), simnet.PacketData(54460, ref.ServerProfileEventsCode, genEventsBlock(rng, 1, true), false, 0))
		}
		return nil
	}
	script.OnDataEnd = func() []simnet.Item {
		var items []simnet.Item
		if sc.EndsExc {
			items = withGates(prog(), simnet.PacketException(exc))
		} else {
			items = withGates(prog(), simnet.PacketEnd())
		}
		items[len(items)-1].Final = true
		return items
	}
	sim.Srv.InputExpected = func(rq *ref.Query) bool { return sc.Insert && rq.Body != "PREFACE" }

	// the query
	q := ch.Query{Body: "Q " + sc.Name, QueryID: "qid"}
	cb := func(name string) error {
		if gate("cb:" + name) {
			if f != nil && f.Kind == "callback-fail-wrapping-exception" {
				// the callback failed because of a server exception on *another* connection (e.g. it
				// forwards rows into an INSERT elsewhere): still a callback failure of this query
				return fmt.Errorf("%w: forwarding rows: %w", errInjected, &ch.Exception{Code: proto.ErrUnknownTable, Name: "DB::Exception", Message: "table gone (other connection)"})
			}
			return errInjected
		}
		return nil
	}
	colA, colB := new(proto.ColUInt32), new(proto.ColStr)
	fill := func(n int) {
		for i := 0; i < n; i++ {
			colA.Append(rng.Uint32())
			colB.Append(fmt.Sprintf("in-%d", rng.Intn(1000)))
		}
	}
	if sc.Insert {
		fill(3)
		q.Input = proto.Input{{Name: "a", Data: colA}, {Name: "b", Data: colB}}
		if sc.Stream > 0 {
			round := 0
			q.OnInput = func(ctx context.Context) error {
				if err := cb("input"); err != nil {
					return err
				}
				round++
				colA.Reset()
				colB.Reset()
				if round >= sc.Stream {
					fill(1) // tail rows
					return io.EOF
				}
				fill(2)
				return nil
			}
		}
	} else {
		ra, rb := new(proto.ColUInt32), new(proto.ColStr)
		q.Result = proto.Results{{Name: "a", Data: ra}, {Name: "b", Data: rb}}
		q.OnResult = func(ctx context.Context, b proto.Block) error { return cb("result") }
	}
	if sc.External {
		ea := new(proto.ColUInt32)
		ea.Append(7)
		q.ExternalData = []proto.InputColumn{{Name: "x", Data: ea}}
		if !sc.NoExtName {
			q.ExternalTable = "ext"
		}
	}
	q.OnProgress = func(ctx context.Context, p proto.Progress) error { return cb("progress") }
	q.OnProfile = func(ctx context.Context, p proto.Profile) error { return cb("profile") }
	if sc.Telemetry {
		q.OnProfileEvents = func(ctx context.Context, e []ch.ProfileEvent) error { return cb("events") }
		q.OnLogs = func(ctx context.Context, l []ch.Log) error { return cb("logs") }
	}

	// handshake (never faulted here), then arm byte-level faults relative to the query
	hctx, hcancel := context.WithTimeout(context.Background(), 10*time.Second)
	opt := ch.Options{Compression: sc.Comp, ReadTimeout: readTimeout, OpenTelemetryInstrumentation: sc.Otel}
	c, err := ch.Connect(hctx, sim.Conn, opt)
	hcancel()
	if err != nil {
		out.Err = fmt.Errorf("handshake: %w", err)
		out.Returned = true
		return out
	}
	client = c
	sim.Client = c
	if sc.PrefaceExc {
		// the client has history: an earlier query on it ended with a server exception (after
		// which the client legitimately stays open)
		pctx, pcancel := context.WithTimeout(context.Background(), 10*time.Second)
		mu.Lock()
		prefacing = true
		mu.Unlock()
		perr := c.Do(pctx, ch.Query{Body: "PREFACE"})
		mu.Lock()
		prefacing = false
		mu.Unlock()
		pcancel()
		if !ch.IsException(perr) || c.IsClosed() {
			out.Err = fmt.Errorf("preface query: %v (closed=%v)", perr, c.IsClosed())
			out.Returned = true
			return out
		}
	}
	out.HandshakeW = sim.Conn.WrittenBytes()
	out.HandshakeR = sim.Conn.Delivered()
	mu.Lock()
	out.Gates = out.Gates[:0] // handshake gates are not fault points of the query
	out.Hooks = out.Hooks[:0]
	for k := range counts {
		delete(counts, k)
	}
	mu.Unlock()
	if f != nil {
		switch f.Kind {
		case "stall-setup", "stall+callback-fail":
			// the server goes silent after K bytes of its response (inside a packet); for the
			// combined kind a callback of the sender then fails while the receiver waits there
			sim.Conn.ReadCutAfter = out.HandshakeR + f.K
			sim.Conn.ReadCutStall = true
		case "blocked-write-setup":
			sim.Conn.BlockWritesAfter = out.HandshakeW + f.K
		case "corrupt":
			sim.Conn.CorruptAt = out.HandshakeR + f.K
			sim.Conn.CorruptMask = byte(f.Mask)
			out.Fired = true
		case "cut":
			sim.Conn.ReadCutAfter = out.HandshakeR + f.K
			sim.Conn.ReadCutReset = f.Reset
			sim.Conn.ReadCutDeadWrites = f.Reset
			out.Fired = true
		case "write-error", "exception+write-error":
			sim.Conn.WriteFailAfter = out.HandshakeW + f.K
			if f.Kind == "write-error" {
				out.Fired = true
			}
		case "none":
			out.Fired = true // no perturbation: the scenario's own terminal exception is the failure
		case "deadline-passed":
			cancel() // context already done before the call
			out.Fired = true
		}
	}
	if onReady != nil {
		onReady(out)
	}
	start := time.Now()
	wd := 10 * time.Second
	if f != nil && f.Gate == "no-deadline" {
		wd = 2 * time.Second
	}
	if sc.ExtraHeaders > 0 {
		wd = 3 * time.Second // this server never ends the query: only a cancellation does
	}
	out.Returned = runWithStuckWatchdog(wd, func() {
		out.Err = client.Do(ctx, q)
	})
	out.ReturnWall = time.Now()
	out.Elapsed = time.Since(start)
	// the run is over for the oracle: gates reached from here on (e.g. the Cancel write caused by
	// this function's own deferred cancel) must not count as the planned fault having fired
	mu.Lock()
	frozen = true
	mu.Unlock()
	if !out.Returned {
		out.StuckReaders, out.StuckArmed = sim.Conn.BlockedReaders()
		out.StuckQueue = sim.Conn.QueueLen()
		out.StuckStacks = strings.Join(libraryGoroutines(), "\n---\n")
		out.StuckBusy = libraryBusy()
	}
	if out.Returned {
		foreign.Wait()
	}
	// freeze the traces: late hook calls (e.g. a Close by the caller) must not touch them
	ch.VerifSetHook(nil)
	mu.Lock()
	out.Gates = append([]string(nil), out.Gates...)
	out.Hooks = append([]string(nil), out.Hooks...)
	mu.Unlock()
	out.WrittenAtReturn = sim.Conn.WrittenBytes()
	out.PendingAtReturn = len(sim.Srv.Pending())
	out.SrvErrAtReturn = sim.Srv.Err
	out.CloseCallsAtReturn = sim.Conn.CloseCalls()
	out.ClosedAtReturn = sim.Conn.Closed()
	return out
}

// gatesOf lists the distinct gate occurrences of a pilot run usable as fault points.
func gatesOf(pilot *runOut, prefixes ...string) []string {
	seen := map[string]bool{}
	var out []string
	for _, g := range pilot.Gates {
		ok := len(prefixes) == 0
		for _, p := range prefixes {
			if strings.HasPrefix(g, p) {
				ok = true
			}
		}
		if ok && !seen[g] {
			seen[g] = true
			out = append(out, g)
		}
	}
	return out
}

func hookSignature(hooks []string) uint64 {
	return hashStrings(hooks)
}

func hashStrings(ss []string) uint64 {
	var h uint64 = 1469598103934665603
	for _, s := range ss {
		for i := 0; i < len(s); i++ {
			h ^= uint64(s[i])
			h *= 1099511628211
		}
		h ^= 0xff
		h *= 1099511628211
	}
	return h
}

func isCtxErr(err error) bool {
	return errors.Is(err, context.Canceled) || errors.Is(err, context.DeadlineExceeded)
}
