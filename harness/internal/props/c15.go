package props

import (
	"bufio"
	"bytes"
	"errors"
	"fmt"
	"io"
	"os"
	"path/filepath"
	"sort"
	"strings"

	"github.com/ClickHouse/ch-go/proto"

	"verif/internal/core"
	"verif/internal/ref"
	"verif/internal/val"
)

func init() {
	Registry["C15"] = Spec{
		Fn:          c15,
		Level:       "exploration",
		Builds:      []string{"default", "purego"},
		Rule:        "the same driver source is compiled with and without -tags purego; for every catalogue column built on a two-variant codec (32 generated + Bool + UUID, plus Point/Interval/wrappers that sit on them) it decodes generated raw inputs (exhaustive: every value of 8- and 16-bit element types, every input byte 0..255 for Bool, and one out-of-domain byte at every position of Bool columns of 7..65 rows; boundary+random limbs for wider ones; row counts 0,1,2,3,7,8,9,255,256,257,1000; inputs short by 1..size bytes; columns of 3 x 128 KiB cut at 0, 1, 4 KiB, 64 KiB, 128 KiB +-1, 256 KiB, 384 KiB and just before the end; errors are compared by class nil / io.EOF / io.ErrUnexpectedEOF / other) into {fresh, used-then-reset} columns and re-encodes through EncodeColumn into {empty, junk-prefixed 1..17 B} buffers and WriteColumn+Flush (prefix chained, writer buffer pre-filled before NewWriter, bytes appended directly between two columns); each step appends a transcript line (case id -> hash of bytes / values / error class); the parent aligns both transcripts by case id. Non-trivial = >=1 row; distinct = transcript case ids with rows>0",
		Assumptions: []string{"error classes compared are {nil, short read, bad value}; after a failed decode only the error class is compared", "ColRawOf exists only in the default build and is excluded"},
		MinDistinct: 500,
		Post:        c15Post,
		Exhaustive:  func(string) bool { return true },
	}
}

func errClass(err error) string {
	switch {
	case err == nil:
		return "nil"
	case errors.Is(err, io.ErrUnexpectedEOF):
		return "short-read(io.ErrUnexpectedEOF)"
	case errors.Is(err, io.EOF):
		return "short-read(io.EOF)"
	case strings.Contains(err.Error(), "EOF"):
		return "short-read(text only)"
	}
	return "bad-value"
}

type c15T struct {
	w *bufio.Writer
	r *core.Run
}

func (t *c15T) line(id string, v string, rows int) {
	fmt.Fprintf(t.w, "%s\t%s\n", id, v)
	t.r.Eval()
	if rows > 0 {
		t.r.NonTrivial(id)
	}
}

func c15(r *core.Run) {
	f, err := os.Create(filepath.Join(r.Work, fmt.Sprintf("transcript-%s-%d.tsv", r.Build, r.Shard)))
	if err != nil {
		r.Violation("harness:transcript", err.Error(), nil)
		return
	}
	defer f.Close()
	t := &c15T{w: bufio.NewWriterSize(f, 1<<20), r: r}
	defer t.w.Flush()
	var ci int64
	for ei, e := range val.Catalogue {
		if strings.Contains(e.Kind, "ColRawOf") {
			continue
		}
		ty, err := ref.ParseType(e.Type)
		if err != nil {
			continue
		}
		w := ty.Width()
		leafFixed := e.Leaf && w > 0 && ty.Base != "Nothing"
		// --- value-level cases through the model (all catalogue entries) ---
		for vi, rows := range []int{0, 1, 2, 3, 7, 8, 9, 1000} {
			ci++
			if !r.Take(ci) {
				continue
			}
			rng := r.Rand(ci, "c15") // same seed in both builds
			vals := val.GenColumn(rng, ty, rows, val.GenOpt{})
			var w2 ref.W
			ref.EncodeState(&w2, ty)
			stateLen := len(w2.B)
			ref.EncodeColumn(&w2, ty, vals, nil)
			raw := w2.B[stateLen:]
			id := fmt.Sprintf("%03d|%s|%s|vals#%d|rows=%d", ei, e.Type, e.Kind, vi, rows)
			c15Codec(t, r, e, ty, id, raw, rows, rng.Intn(17)+1)
			if vi == 3 {
				r.Sample(map[string]any{"codec": e.Kind, "type": e.Type, "rows": rows, "build": r.Build})
			}
		}
		if !leafFixed {
			continue
		}
		// --- exhaustive raw inputs for narrow element types ---
		if w == 1 {
			ci++
			if r.Take(ci) {
				raw := make([]byte, 256)
				for i := range raw {
					raw[i] = byte(i)
				}
				if ty.Base == "Bool" || strings.HasPrefix(e.Kind, "ColEnum(") {
					// one byte at a time: a bad value must not hide the others
					for v := 0; v < 256; v++ {
						c15Codec(t, r, e, ty, fmt.Sprintf("%03d|%s|%s|byte=%d", ei, e.Type, e.Kind, v), []byte{byte(v)}, 1, 3)
					}
					// one out-of-domain byte at every position of longer columns (word-at-a-time
					// validation must look at every lane)
					if ty.Base == "Bool" {
						for _, rows := range []int{7, 8, 9, 16, 24, 33, 64, 65} {
							for p := 0; p < rows; p++ {
								for _, bad := range []byte{2, 0x40, 0x80, 0xff} {
									raw := make([]byte, rows)
									for i := range raw {
										raw[i] = byte((i + p) & 1)
									}
									raw[p] = bad
									c15Decode(t, e, fmt.Sprintf("%03d|%s|%s|rows=%d|bad=%#x@%d", ei, e.Type, e.Kind, rows, bad, p), raw, rows, p%2 == 0, true)
								}
							}
						}
					}
				} else {
					c15Codec(t, r, e, ty, fmt.Sprintf("%03d|%s|%s|all-8bit", ei, e.Type, e.Kind), raw, 256, 5)
				}
				r.SetAdd("exhaustive_codecs", e.Kind)
			}
		}
		if w == 2 {
			ci++
			if r.Take(ci) {
				raw := make([]byte, 65536*2)
				for i := 0; i < 65536; i++ {
					raw[2*i], raw[2*i+1] = byte(i), byte(i>>8)
				}
				if strings.HasPrefix(e.Kind, "ColEnum(") {
					for v := 0; v < 65536; v += 257 {
						c15Codec(t, r, e, ty, fmt.Sprintf("%03d|%s|%s|u16=%d", ei, e.Type, e.Kind, v), raw[2*v:2*v+2], 1, 3)
					}
				} else {
					c15Codec(t, r, e, ty, fmt.Sprintf("%03d|%s|%s|all-16bit", ei, e.Type, e.Kind), raw, 65536, 7)
				}
				r.SetAdd("exhaustive_codecs", e.Kind)
			}
		}
		// --- random raw bytes (any bit pattern) and short inputs ---
		for k := 0; k < r.Pick(6, 60); k++ {
			ci++
			if !r.Take(ci) {
				continue
			}
			rng := r.Rand(ci, "raw")
			rows := []int{1, 2, 3, 7, 8, 9, 33}[rng.Intn(7)]
			raw := make([]byte, rows*w)
			rng.Read(raw)
			if ty.Base == "Bool" {
				for i := range raw {
					raw[i] &= 1
				}
			}
			id := fmt.Sprintf("%03d|%s|%s|raw#%d|rows=%d", ei, e.Type, e.Kind, k, rows)
			if !strings.HasPrefix(e.Kind, "ColEnum(") && !strings.Contains(e.Type, "DateTime64(") && ty.Base != "Date32" {
				c15Codec(t, r, e, ty, id, raw, rows, rng.Intn(17)+1)
			}
			short := 1 + rng.Intn(w)
			c15Decode(t, e, id+fmt.Sprintf("|short-by-%d", short), raw[:len(raw)-short], rows, false, false)
		}
		// --- a few hundred rows (size thresholds in the codecs), all paths ---
		ci++
		if r.Take(ci) {
			rng := r.Rand(ci, "rows300")
			for _, rows := range []int{255, 256, 257, 1000} {
				raw := make([]byte, rows*w)
				rng.Read(raw)
				if ty.Base == "Bool" {
					for i := range raw {
						raw[i] &= 1
					}
				}
				if !strings.HasPrefix(e.Kind, "ColEnum(") && !strings.Contains(e.Type, "DateTime64(") && ty.Base != "Date32" {
					c15Codec(t, r, e, ty, fmt.Sprintf("%03d|%s|%s|rows=%d", ei, e.Type, e.Kind, rows), raw, rows, 5)
				}
			}
		}
		// --- columns larger than the reader's buffer, cut at and around multiples of 64 KiB / 128 KiB ---
		ci++
		if r.Take(ci) {
			rng := r.Rand(ci, "bigraw")
			rows := (3*131072)/w + 5
			raw := make([]byte, rows*w)
			rng.Read(raw)
			if ty.Base == "Bool" {
				for i := range raw {
					raw[i] &= 1
				}
			}
			id := fmt.Sprintf("%03d|%s|%s|big|rows=%d", ei, e.Type, e.Kind, rows)
			if !strings.HasPrefix(e.Kind, "ColEnum(") {
				c15Decode(t, e, id+"|whole", raw, rows, false, false)
			}
			for _, cut := range []int{0, 1, 4096, 65536, 131071, 131072, 131073, 262144, 393216, len(raw) - w, len(raw) - 1} {
				if cut >= 0 && cut < len(raw) {
					c15Decode(t, e, id+fmt.Sprintf("|cut-at-%d", cut), raw[:cut], rows, false, false)
				}
			}
		}
	}
}

// c15Codec: decode raw into fresh and reused targets, then re-encode through all paths.
func c15Codec(t *c15T, r *core.Run, e val.Entry, ty *ref.Type, id string, raw []byte, rows int, prefixLen int) {
	for _, reuse := range []bool{false, true} {
		col := c15Decode(t, e, fmt.Sprintf("%s|reuse=%v", id, reuse), raw, rows, reuse, true)
		if col == nil {
			continue
		}
		sub := fmt.Sprintf("%s|reuse=%v", id, reuse)
		if p := core.Recover(func() {
			c := col.Col()
			if pr, ok := c.(proto.Preparable); ok {
				if err := pr.Prepare(); err != nil {
					t.line(sub+"|prepare", "error:"+errClass(err), rows)
					return
				}
			}
			var b proto.Buffer
			c.EncodeColumn(&b)
			t.line(sub+"|EncodeColumn/empty", fmt.Sprintf("%016x len=%d", core.Hash(string(b.Buf)), len(b.Buf)), rows)
			prefix := make([]byte, prefixLen)
			for i := range prefix {
				prefix[i] = byte(0xA0 + i)
			}
			b2 := proto.Buffer{Buf: append([]byte(nil), prefix...)}
			c.EncodeColumn(&b2)
			ok := len(b2.Buf) >= prefixLen && bytes.Equal(b2.Buf[:prefixLen], prefix)
			t.line(sub+fmt.Sprintf("|EncodeColumn/prefix%d", prefixLen), fmt.Sprintf("%016x len=%d prefix-preserved=%v", core.Hash(string(b2.Buf)), len(b2.Buf), ok), rows)
			// a used buffer: length reset, old bytes still in the spare capacity
			dirty := make([]byte, len(b.Buf)+40)
			for i := range dirty {
				dirty[i] = 0x5A ^ byte(i)
			}
			b3 := proto.Buffer{Buf: dirty[:0]}
			c.EncodeColumn(&b3)
			t.line(sub+"|EncodeColumn/used-buffer", fmt.Sprintf("%016x len=%d same-as-fresh=%v", core.Hash(string(b3.Buf)), len(b3.Buf), bytes.Equal(b3.Buf, b.Buf)), rows)
			var sink bytes.Buffer
			w := proto.NewWriter(&sink, new(proto.Buffer))
			w.ChainBuffer(func(buf *proto.Buffer) { buf.PutRaw(prefix) })
			c.WriteColumn(w)
			_, err := w.Flush()
			t.line(sub+"|WriteColumn", fmt.Sprintf("%016x len=%d err=%s", core.Hash(sink.String()), sink.Len(), errClass(err)), rows)
			// other starting states of the writer's buffer: pre-filled before NewWriter, and bytes
			// appended to it directly between two columns
			sink.Reset()
			pb := &proto.Buffer{Buf: append([]byte(nil), prefix...)}
			w = proto.NewWriter(&sink, pb)
			c.WriteColumn(w)
			pb.Buf = append(pb.Buf, 0xC1, 0xC2, 0xC3)
			c.WriteColumn(w)
			_, err = w.Flush()
			t.line(sub+"|WriteColumn/prefilled", fmt.Sprintf("%016x len=%d err=%s", core.Hash(sink.String()), sink.Len(), errClass(err)), rows)
			// encoding and writing are reads: afterwards the column holds the same rows and encodes to
			// the same bytes again
			var b4 proto.Buffer
			c.EncodeColumn(&b4)
			sink.Reset()
			w = proto.NewWriter(&sink, new(proto.Buffer))
			c.WriteColumn(w)
			_, err = w.Flush()
			t.line(sub+"|after-writes", fmt.Sprintf("EncodeColumn-unchanged=%v WriteColumn-equals-EncodeColumn=%v err=%s", bytes.Equal(b4.Buf, b.Buf), bytes.Equal(sink.Bytes(), b.Buf), errClass(err)), rows)
		}); p != "" {
			t.line(sub+"|encode", "PANIC "+firstLineOf(p), rows)
		}
	}
}

func firstLineOf(s string) string {
	if i := strings.IndexByte(s, '\n'); i >= 0 {
		return s[:i]
	}
	return s
}

// c15Decode decodes raw into a column; returns it on success.
func c15Decode(t *c15T, e val.Entry, id string, raw []byte, rows int, reuse bool, logVals bool) val.LibCol {
	col := e.New()
	var derr error
	p := core.Recover(func() {
		c := col.Col()
		if reuse {
			// use it once with other data of the same shape (the rows in reverse order, which is
			// valid whenever raw is), then reset: nothing of it may survive
			other := raw
			if rows > 1 && len(raw)%rows == 0 {
				w := len(raw) / rows
				other = make([]byte, 0, len(raw))
				for i := rows - 1; i >= 0; i-- {
					other = append(other, raw[i*w:(i+1)*w]...)
				}
			}
			rd := proto.NewReader(bytes.NewReader(other))
			_ = c.DecodeColumn(rd, rows)
			c.Reset()
		}
		rd := proto.NewReader(bytes.NewReader(raw))
		derr = c.DecodeColumn(rd, rows)
	})
	if p != "" {
		t.line(id+"|DecodeColumn", "PANIC "+firstLineOf(p), rows)
		return nil
	}
	if derr != nil {
		t.line(id+"|DecodeColumn", "error:"+errClass(derr), rows)
		return nil
	}
	summary := fmt.Sprintf("ok rows=%d", col.Col().Rows())
	if logVals {
		var sb strings.Builder
		if p := core.Recover(func() {
			for i := 0; i < col.Col().Rows(); i++ {
				sb.WriteString(col.Get(i).String())
				sb.WriteByte(';')
			}
		}); p != "" {
			summary += " ROW-PANIC " + firstLineOf(p)
		} else {
			summary += fmt.Sprintf(" values=%016x", core.Hash(sb.String()))
		}
	}
	t.line(id+"|DecodeColumn", summary, rows)
	return col
}

func c15Post(work, tier string, builds []string, shards int) ([]core.Violation, map[string]any) {
	load := func(build string) (map[string]string, error) {
		m := map[string]string{}
		files, _ := filepath.Glob(filepath.Join(work, "transcript-"+build+"-*.tsv"))
		for _, fn := range files {
			f, err := os.Open(fn)
			if err != nil {
				return nil, err
			}
			sc := bufio.NewScanner(f)
			sc.Buffer(make([]byte, 1<<20), 1<<20)
			for sc.Scan() {
				id, v, ok := strings.Cut(sc.Text(), "\t")
				if ok {
					m[id] = v
				}
			}
			f.Close()
		}
		return m, nil
	}
	a, err1 := load("default")
	b, err2 := load("purego")
	var out []core.Violation
	if err1 != nil || err2 != nil || len(a) == 0 || len(b) == 0 {
		return []core.Violation{{Key: "C15:harness:no-transcripts", What: fmt.Sprintf("transcripts missing: default=%d purego=%d (%v %v)", len(a), len(b), err1, err2)}}, nil
	}
	var ids []string
	for id := range a {
		ids = append(ids, id)
	}
	sort.Strings(ids)
	diffs := 0
	onlyOne := 0
	for _, id := range ids {
		vb, ok := b[id]
		if !ok {
			onlyOne++
			continue
		}
		if a[id] != vb {
			diffs++
			parts := strings.Split(id, "|")
			codec := parts[2]
			op := parts[len(parts)-1]
			if i := strings.IndexByte(op, '/'); i >= 0 {
				op = op[:i]
			}
			key := fmt.Sprintf("C15:%s:%s", codec, op)
			out = append(out, core.Violation{Key: key, What: fmt.Sprintf("case %q: default build -> %s ; purego build -> %s", id, a[id], vb), Replay: map[string]any{"case": id, "default": a[id], "purego": vb}})
		}
	}
	for id := range b {
		if _, ok := a[id]; !ok {
			onlyOne++
		}
	}
	if onlyOne > 0 {
		// a decode that fails in one build produces no encode lines there: report those through the decode line only
	}
	return out, map[string]any{"transcript_lines_default": len(a), "transcript_lines_purego": len(b), "aligned_case_ids": len(ids) - onlyOne, "differing_case_ids": diffs, "unaligned_lines": onlyOne}
}
