package props

import (
	"context"
	"errors"
	"fmt"
	"math/rand"
	"net"
	"sort"
	"strings"
	"sync"
	"sync/atomic"
	"time"

	"github.com/ClickHouse/ch-go"
	"github.com/ClickHouse/ch-go/chpool"
	"github.com/ClickHouse/ch-go/proto"
	"github.com/anishathalye/porcupine"

	"verif/internal/core"
	"verif/internal/ref"
	"verif/internal/simnet"
)

func init() {
	Registry["C11"] = Spec{
		Fn:           c11,
		Level:        "exploration",
		Builds:       []string{"race"},
		Shards:       8,
		Rule:         "many short histories (<= 60 operations) of 1..12 goroutines sharing a pool with MaxConns 1..4 over simulated connections: Acquire, 1..3 queries (ok / server exception / connection dropped / cancelled), Ping, Release once / twice / a stale handle released again after somebody else acquired, Pool.Do, Pool.Ping, Close; configuration classes: pure locking (long lifetimes), destroy-on-release (MaxConnLifetime 1 ns), idle reaping (MaxConnIdleTime 1 ns, health period 2 ms, judged in completed health passes through the pool:health-pass hook), mixed short lifetimes. Every acquisition carries a unique session id in its query ids. Oracles over the recorded event log: (a) per connection the server-side request log must consist of contiguous session blocks; (b) the acquire/release history is checked for linearizability against a lock-per-connection model with porcupine (partitioned by connection; timeout = inconclusive); (c) dialed - closed <= MaxConns at every dial; (d) no session on a connection after a release at which its client was closed / in destroy-on-release mode; (e) no panic; (f) idle connections closed within 3 health passes; (g) after Close with all handles released every dialed connection is closed. Built with -race. Non-trivial = >= 2 holders contended for one connection; distinct = history fingerprint",
		Assumptions:  []string{"the harness never uses a handle after releasing it (only releases it again)", "porcupine v1.3.0 as the linearizability checker"},
		MinDistinct:  50,
		TimeoutQuick: 20 * time.Minute,
	}
}

type c11Event struct {
	T      int64
	Kind   string // dial, close, srv-query, acquire-call, acquire-ret, release-call, release-ret
	Conn   int
	Holder int
	Sess   int
	Note   string
}

type c11Log struct {
	mu    sync.Mutex
	clock atomic.Int64
	ev    []c11Event
}

func (l *c11Log) add(e c11Event) int64 {
	e.T = l.clock.Add(1)
	l.mu.Lock()
	l.ev = append(l.ev, e)
	l.mu.Unlock()
	return e.T
}

type lockIn struct {
	Op     int // 0 acquire, 1 release, 2 repeated release (no-op)
	Holder int // session id
}

func c11(r *core.Run) {
	n := r.Pick(240, 8000)
	ci := int64(0)
	for ci < int64(n) {
		ci++
		if !r.Take(ci) {
			continue
		}
		c11History(r, ci)
	}
	// handle recycling: a stale handle released again after the same connection went through
	// many more acquisitions (handles are handed out from per-connection batches)
	for _, cycles := range []int{1, 2, 31, 62, 63, 64, 65, 66, 126, 127, 128, 129, 130, 191, 192, 193, 300} {
		ci++
		if !r.Take(ci) {
			continue
		}
		c11Recycle(r, ci, cycles)
	}
}

// c11Recycle: MaxConns=1. A acquires and releases (keeps the handle); the connection is then
// acquired and released `cycles` times; C acquires and holds; A releases its stale handle again;
// D must not be able to acquire while C holds.
func c11Recycle(r *core.Run, ci int64, cycles int) {
	desc := map[string]any{"class": "handle-recycling", "cycles": cycles}
	r.CaseLog(fmt.Sprintf("%d %v", ci, desc))
	r.Eval()
	r.NonTrivial("handle-recycling", cycles)
	fail := func(cls, msg string) {
		r.Violation(cls, fmt.Sprintf("%s [handle recycling, %d acquisitions between the two releases of the stale handle]", msg, cycles), desc)
	}
	dialer := &simDialer{}
	var served atomic.Int64
	dialer.mk = func(i int) (*simnet.Conn, error) {
		script := &simnet.Script{Rev: 54460}
		script.OnQuery = func(q *ref.Query) []simnet.Item {
			served.Add(1)
			return []simnet.Item{{Data: simnet.PacketEnd()}}
		}
		return simnet.New(simnet.NewScriptServer(script)), nil
	}
	ctx, cancel := context.WithTimeout(context.Background(), 30*time.Second)
	defer cancel()
	pool, err := chpool.New(ctx, chpool.Options{ClientOptions: ch.Options{Dialer: dialer, ReadTimeout: 300 * time.Millisecond, Address: "sim:9000"}, MaxConns: 1, HealthCheckPeriod: time.Hour})
	if err != nil {
		fail("harness:new-pool", err.Error())
		return
	}
	defer pool.Close()
	defer func() {
		if p := recover(); p != nil {
			fail("panic", fmt.Sprintf("panic: %v", p))
		}
	}()
	a, err := pool.Acquire(ctx)
	if err != nil {
		fail("harness:acquire", err.Error())
		return
	}
	_ = a.Do(ctx, ch.Query{Body: "OK"})
	a.Release()
	for i := 0; i < cycles; i++ {
		b, err := pool.Acquire(ctx)
		if err != nil {
			fail("harness:acquire", err.Error())
			return
		}
		b.Release()
	}
	c, err := pool.Acquire(ctx)
	if err != nil {
		fail("harness:acquire", err.Error())
		return
	}
	a.Release() // stale handle, released a second time while C holds the only connection
	if got := pool.Stat().AcquiredResources(); got != 1 {
		fail("repeated-release-affects-other-holder", fmt.Sprintf("after a repeated Release of a stale handle the pool reports %d acquired connections while one holder still holds the only one", got))
	}
	dctx, dcancel := context.WithTimeout(ctx, 100*time.Millisecond)
	d, derr := pool.Acquire(dctx)
	dcancel()
	if derr == nil {
		fail("two-holders-on-one-connection", "a second holder acquired the only connection (MaxConns=1) while the first still holds it, after a stale handle was released again")
		d.Release()
	}
	if err := c.Do(ctx, ch.Query{Body: "OK"}); err != nil {
		fail("holder-lost-its-connection", "the legitimate holder's query failed: "+err.Error())
	}
	c.Release()
	if n := len(dialer.Conns()); n != 1 {
		fail("too-many-open-connections", fmt.Sprintf("%d connections dialed with MaxConns=1", n))
	}
}

func c11History(r *core.Run, ci int64) {
	rng := r.Rand(ci, "c11")
	class := []string{"locking", "destroy-on-release", "idle-reaping", "mixed", "idle-reaping-slow"}[ci%5]
	maxConns := 1 + rng.Intn(4)
	workers := 1 + rng.Intn(12)
	opsPer := 2 + rng.Intn(5)
	log := &c11Log{}
	var healthPasses atomic.Int64
	var healthTicks atomic.Int64
	chpool.VerifSetHook(func(name string) {
		switch name {
		case "pool:health-pass":
			healthPasses.Add(1)
		case "pool:health-tick":
			healthTicks.Add(1)
		}
	})
	defer chpool.VerifSetHook(nil)

	var openNow, maxOpen, okOps atomic.Int64
	var sessCtr atomic.Int64
	dialer := &simDialer{}
	dialer.mk = func(i int) (*simnet.Conn, error) {
		script := &simnet.Script{Rev: 54460}
		srv := simnet.NewScriptServer(script)
		conn := simnet.New(srv)
		id := i
		script.OnQuery = func(q *ref.Query) []simnet.Item {
			var sess, holder int
			fmt.Sscanf(q.ID, "s%d-h%d", &sess, &holder)
			log.add(c11Event{Kind: "srv-query", Conn: id, Sess: sess, Holder: holder, Note: q.Body})
			// each query carries the pool-wide setting and its own comment, nobody else's
			if len(q.Settings) != 2 || q.Settings[0].Key != "max_block_size" || q.Settings[0].Value != "1000" || q.Settings[1].Key != "log_comment" || q.Settings[1].Value != q.ID {
				log.add(c11Event{Kind: "bad-settings", Conn: id, Sess: sess, Holder: holder, Note: fmt.Sprintf("query %s arrived with settings %v", q.ID, q.Settings)})
			}
			switch q.Body {
			case "EXC":
				return []simnet.Item{{Data: simnet.PacketException([]ref.Exception{{Code: 60, Name: "DB::Exception", Message: "no table"}})}}
			case "CUT":
				return []simnet.Item{{EOF: true}}
			case "CBEXC":
				// a result of several blocks; the holder's callback gives up at the first one
				blk := func(n int) *ref.Block {
					b := &ref.Block{Rows: n, Info: ref.BlockInfo{Bucket: -1}, Cols: []ref.Col{{Name: "a", Type: "UInt32"}}}
					for i := 0; i < n; i++ {
						b.Cols[0].Vals = append(b.Cols[0].Vals, ref.Leaf([]byte{byte(i), 0, 0, 0}))
					}
					return b
				}
				z := q.Compression == 1
				return []simnet.Item{{Data: simnet.PacketData(54460, ref.ServerDataCode, blk(0), z, ref.MethodZSTD)}, {Data: simnet.PacketData(54460, ref.ServerDataCode, blk(3), z, ref.MethodZSTD)},
					{Data: simnet.PacketData(54460, ref.ServerDataCode, blk(2), z, ref.MethodZSTD)}, {Data: simnet.PacketProgress(54460, ref.Progress{Rows: 5})}, {Data: simnet.PacketEnd()}}
			}
			if q.Compression == 1 {
				// a (zero-row) result header inside a ZSTD frame: every connection's receiver goes
				// through the decompressor, the first ones concurrently
				hdr := &ref.Block{Info: ref.BlockInfo{Bucket: -1}, Cols: []ref.Col{{Name: "a", Type: "UInt32"}}}
				return []simnet.Item{{Data: simnet.PacketData(54460, ref.ServerDataCode, hdr, true, ref.MethodZSTD)}, {Data: simnet.PacketProgress(54460, ref.Progress{Rows: 1})}, {Data: simnet.PacketEnd()}}
			}
			return []simnet.Item{{Data: simnet.PacketProgress(54460, ref.Progress{Rows: 1})}, {Data: simnet.PacketEnd()}}
		}
		if i%3 == 1 {
			conn.CloseErr = errCloseNotify
		}
		if i%2 == 0 {
			// closing takes a moment: the slot of a connection must not be reusable before then
			conn.CloseDelay = time.Duration(1+i%3) * time.Millisecond
		}
		conn.OnClose = func() {
			openNow.Add(-1)
			log.add(c11Event{Kind: "close", Conn: id})
		}
		n := openNow.Add(1)
		for {
			m := maxOpen.Load()
			if n <= m || maxOpen.CompareAndSwap(m, n) {
				break
			}
		}
		log.add(c11Event{Kind: "dial", Conn: id, Note: fmt.Sprint(n)})
		return conn, nil
	}
	// wrap Close accounting through a gate: simnet.Conn has no close callback, poll afterwards instead
	// connection-level settings shared by every client of the pool; the slice has spare capacity,
	// which belongs to the caller
	baseSettings := append(make([]ch.Setting, 0, 8), ch.SettingInt("max_block_size", 1000))
	opts := chpool.Options{ClientOptions: ch.Options{Dialer: dialer, ReadTimeout: 300 * time.Millisecond, Address: "sim:9000", Settings: baseSettings}, MaxConns: int32(maxConns), HealthCheckPeriod: time.Hour}
	if ci%2 == 1 {
		opts.ClientOptions.Compression = ch.CompressionZSTD
	}
	switch class {
	case "destroy-on-release":
		opts.MaxConnLifetime = time.Nanosecond
	case "idle-reaping":
		opts.MaxConnIdleTime = time.Nanosecond
		opts.HealthCheckPeriod = 2 * time.Millisecond
	case "idle-reaping-slow":
		// idle time longer than the health period: the check must measure idleness across passes
		opts.MaxConnIdleTime = 12 * time.Millisecond
		opts.HealthCheckPeriod = 2 * time.Millisecond
	case "mixed":
		opts.MaxConnLifetime = time.Duration(5+rng.Intn(40)) * time.Millisecond
		opts.MaxConnIdleTime = time.Duration(5+rng.Intn(40)) * time.Millisecond
		opts.HealthCheckPeriod = time.Millisecond
	}
	if (class == "idle-reaping" || class == "idle-reaping-slow") && ci%3 == 1 {
		// a warm floor: idle connections are reaped all the same, the pool re-dials up to MinConns
		opts.MinConns = int32(1 + int(ci/3)%2)
		if int(opts.MinConns) > maxConns {
			opts.MinConns = int32(maxConns)
		}
	}
	desc := map[string]any{"class": class, "max_conns": maxConns, "min_conns": opts.MinConns, "workers": workers, "ops_per_worker": opsPer, "case": ci}
	r.CaseLog(fmt.Sprintf("%d %v", ci, desc))
	r.Eval()
	fail := func(cls, msg string) {
		r.Violation(cls, fmt.Sprintf("%s [class %s, MaxConns %d, %d goroutines]", msg, class, maxConns, workers), desc)
	}
	ctx, cancelAll := context.WithTimeout(context.Background(), 30*time.Second)
	defer cancelAll()
	pool, err := chpool.New(ctx, opts)
	if err != nil {
		fail("harness:new-pool", err.Error())
		return
	}
	var ops []porcupine.Operation
	var opsMu sync.Mutex
	addOp := func(o porcupine.Operation) { opsMu.Lock(); ops = append(ops, o); opsMu.Unlock() }
	type held struct {
		c    *chpool.Client
		sess int
		conn int
	}
	var staleMu sync.Mutex
	var stale []held // released handles kept for a later repeated release
	var panics atomic.Int64
	var contended atomic.Int64
	var wg sync.WaitGroup
	histSig := make([]string, workers)
	for w := 0; w < workers; w++ {
		wg.Add(1)
		wrng := rand.New(rand.NewSource(rng.Int63()))
		go func(w int) {
			defer wg.Done()
			var sig []string
			defer func() { histSig[w] = strings.Join(sig, ",") }()
			for k := 0; k < opsPer; k++ {
				op := wrng.Intn(10)
				func() {
					defer func() {
						if p := recover(); p != nil {
							panics.Add(1)
							fail("panic", fmt.Sprintf("panic in pool operation: %v", p))
						}
					}()
					switch {
					case op < 6: // acquire, use, release
						sess := int(sessCtr.Add(1))
						call := log.add(c11Event{Kind: "acquire-call", Holder: w, Sess: sess})
						actx, cancel := context.WithTimeout(ctx, 5*time.Second)
						c, err := pool.Acquire(actx)
						cancel()
						if err != nil {
							sig = append(sig, "acquire-failed")
							return
						}
						if pool.Stat().AcquiredResources() >= int32(maxConns) {
							contended.Add(1)
						}
						conn := -1
						closed := false
						doQ := func(body string) {
							qctx, qc := context.WithTimeout(ctx, 3*time.Second)
							if body == "CANCEL" {
								qc()
								body = "OK"
							}
							qid := fmt.Sprintf("s%d-h%d", sess, w)
							q := ch.Query{Body: body, QueryID: qid, Settings: []ch.Setting{{Key: "log_comment", Value: qid, Important: true}}}
							if body == "CBEXC" {
								// the callback forwards rows elsewhere and fails with that other server's exception
								q.Result = proto.Results{{Name: "a", Data: new(proto.ColUInt32)}}
								q.OnResult = func(ctx context.Context, b proto.Block) error {
									if b.Rows == 0 {
										return nil
									}
									return fmt.Errorf("forward rows: %w", &ch.Exception{Code: proto.ErrUnknownTable, Name: "DB::Exception", Message: "other connection"})
								}
							}
							err := c.Do(qctx, q)
							qc()
							if err != nil && (!ch.IsException(err) || body == "CBEXC") {
								// a transport failure, a cancellation or a failing callback abandons the
								// response: the connection must not be handed out again
								closed = true
							}
							// the tag query is the first request of a fresh holder and the server answers it:
							// failing on a transport that is already closed means the pool handed out a dead
							// connection whose client does not know it is closed
							if body == "TAG" && err != nil && errors.Is(err, net.ErrClosed) && !errors.Is(err, ch.ErrClosed) {
								log.add(c11Event{Kind: "dead-conn-issued", Holder: w, Sess: sess, Note: err.Error()})
							}
						}
						doQ("TAG")
						// which connection served the tag query?
						log.mu.Lock()
						for i := len(log.ev) - 1; i >= 0; i-- {
							if log.ev[i].Kind == "srv-query" && log.ev[i].Sess == sess {
								conn = log.ev[i].Conn
								break
							}
						}
						log.mu.Unlock()
						ret := log.add(c11Event{Kind: "acquire-ret", Holder: w, Sess: sess, Conn: conn})
						if conn >= 0 {
							addOp(porcupine.Operation{ClientId: w, Input: lockIn{0, sess}, Call: call, Output: conn, Return: ret})
						}
						sig = append(sig, "acquire")
						okOps.Add(1)
						for j := 0; j < wrng.Intn(3) && !closed; j++ {
							b := []string{"OK", "OK", "EXC", "CUT", "CANCEL", "CBEXC"}[wrng.Intn(6)]
							doQ(b)
							sig = append(sig, b)
						}
						if wrng.Intn(4) == 0 {
							time.Sleep(time.Duration(wrng.Intn(3)) * time.Millisecond)
						}
						rc := log.add(c11Event{Kind: "release-call", Holder: w, Sess: sess, Conn: conn, Note: fmt.Sprint(closed)})
						c.Release()
						rr := log.add(c11Event{Kind: "release-ret", Holder: w, Sess: sess, Conn: conn})
						if conn >= 0 {
							addOp(porcupine.Operation{ClientId: w, Input: lockIn{1, sess}, Call: rc, Output: conn, Return: rr})
						}
						switch wrng.Intn(5) {
						case 0: // release twice at once
							c.Release()
							sig = append(sig, "release-twice")
						case 1: // keep the stale handle for later
							staleMu.Lock()
							stale = append(stale, held{c, sess, conn})
							staleMu.Unlock()
						}
					case op < 7:
						qctx, qc := context.WithTimeout(ctx, 3*time.Second)
						qid := fmt.Sprintf("s%d-h%d", int(sessCtr.Add(1)), w)
						if pool.Do(qctx, ch.Query{Body: "OK", QueryID: qid, Settings: []ch.Setting{{Key: "log_comment", Value: qid, Important: true}}}) == nil {
							okOps.Add(1)
						}
						qc()
						sig = append(sig, "pool.Do")
					case op < 8:
						qctx, qc := context.WithTimeout(ctx, 3*time.Second)
						if pool.Ping(qctx) == nil {
							okOps.Add(1)
						}
						qc()
						sig = append(sig, "pool.Ping")
					default: // release a stale handle again (possibly while somebody else holds that connection)
						staleMu.Lock()
						var h *held
						if len(stale) > 0 {
							x := stale[len(stale)-1]
							stale = stale[:len(stale)-1]
							h = &x
						}
						staleMu.Unlock()
						if h != nil {
							rc := log.add(c11Event{Kind: "release-again-call", Holder: w, Sess: h.sess, Conn: h.conn})
							h.c.Release()
							rr := log.add(c11Event{Kind: "release-again-ret", Holder: w, Sess: h.sess, Conn: h.conn})
							if h.conn >= 0 {
								addOp(porcupine.Operation{ClientId: w, Input: lockIn{2, h.sess}, Call: rc, Output: h.conn, Return: rr})
							}
							sig = append(sig, "stale-release")
						}
					}
				}()
			}
		}(w)
	}
	doneCh := make(chan struct{})
	go func() { wg.Wait(); close(doneCh) }()
	select {
	case <-doneCh:
	case <-time.After(60 * time.Second):
		r.Inconclusive(fmt.Sprintf("history %d did not finish: %s", ci, clipS(strings.Join(libraryGoroutines(), "\n---\n"))))
		cancelAll()
		return
	}
	// (f) idle reaping in completed health passes; in every second history one handle stays
	// acquired meanwhile (reaping idle connections must not wait for a quiet pool)
	heldConn := -1
	var heldHandle *chpool.Client
	if (class == "idle-reaping" || class == "idle-reaping-slow") && maxConns >= 2 && ci%2 == 0 {
		hctx, hc := context.WithTimeout(ctx, 5*time.Second)
		if h, err := pool.Acquire(hctx); err == nil {
			sess := int(sessCtr.Add(1))
			qid := fmt.Sprintf("s%d-h999", sess)
			if h.Do(hctx, ch.Query{Body: "OK", QueryID: qid, Settings: []ch.Setting{{Key: "log_comment", Value: qid, Important: true}}}) == nil {
				log.mu.Lock()
				for i := len(log.ev) - 1; i >= 0; i-- {
					if log.ev[i].Kind == "srv-query" && log.ev[i].Sess == sess {
						heldConn = log.ev[i].Conn
						break
					}
				}
				log.mu.Unlock()
			}
			if heldConn >= 0 {
				heldHandle = h
				// and a second connection that goes idle now
				if h2, err := pool.Acquire(hctx); err == nil {
					sess2 := int(sessCtr.Add(1))
					qid2 := fmt.Sprintf("s%d-h998", sess2)
					_ = h2.Do(hctx, ch.Query{Body: "OK", QueryID: qid2, Settings: []ch.Setting{{Key: "log_comment", Value: qid2, Important: true}}})
					h2.Release()
				}
				r.Count("idle_reaping_with_a_handle_held", 1)
			} else {
				h.Release()
			}
		}
		hc()
	}
	conns := dialer.Conns()
	if class == "idle-reaping" || class == "idle-reaping-slow" {
		need := int64(3)
		if class == "idle-reaping-slow" {
			// passes are at least one period apart: after 3x(idle/period) passes the idle time has passed for sure
			need = 3 * int64(opts.MaxConnIdleTime/opts.HealthCheckPeriod)
		}
		start, startTicks := healthPasses.Load(), healthTicks.Load()
		deadline := time.Now().Add(10 * time.Second)
		// logical clock: the health checker's own ticks. Every tick must run a pass, so after
		// need+2 further ticks the passes have happened - or the checker skipped them
		for healthPasses.Load() < start+need && healthTicks.Load() < startTicks+need+2 && time.Now().Before(deadline) {
			time.Sleep(time.Millisecond)
		}
		if healthPasses.Load() < start+need && healthTicks.Load() < startTicks+need+2 {
			r.Inconclusive(fmt.Sprintf("health check did not tick %d times", need+2))
		} else {
			// destructors run asynchronously (puddle) and a transport may take a moment to close:
			// a connection that is being reaped gets a grace period, one that is not stays open
			open := 0
			for wait := 0; wait < 3000; wait++ {
				open = 0
				for _, c := range conns {
					if !c.Closed() && c.ID != heldConn {
						open++
					}
				}
				if open == 0 {
					break
				}
				time.Sleep(time.Millisecond)
			}
			if open > 0 {
				fail("idle-not-reaped", fmt.Sprintf("%d idle connection(s) past MaxConnIdleTime still open after %d health-check ticks / passes", open, need))
			}
			r.Count("idle_reaping_checked", 1)
		}
	}
	if heldHandle != nil {
		heldHandle.Release()
	}
	pool.Close()
	// (g) everything closed after Close (with MinConns a background dial may complete while the
	// pool closes; its connection is destroyed asynchronously and gets the same grace as above)
	for wait := 0; opts.MinConns > 0 && wait < 3000; wait++ {
		open := 0
		for _, c := range dialer.Conns() {
			if !c.Closed() {
				open++
			}
		}
		if open == 0 {
			break
		}
		time.Sleep(time.Millisecond)
	}
	for i, c := range dialer.Conns() {
		if !c.Closed() {
			fail("open-after-close", fmt.Sprintf("connection %d still open after Pool.Close with all handles released", i))
			break
		}
	}
	// ---- offline checkers over the event log ----
	log.mu.Lock()
	ev := append([]c11Event(nil), log.ev...)
	log.mu.Unlock()
	r.Count("events_recorded", int64(len(ev)))
	// (c) open connections never exceed MaxConns: recompute from dial events and observed Close calls
	closedAt := map[int]bool{}
	_ = closedAt
	if m := c11MaxOpen(ev, dialer); m > maxConns {
		fail("too-many-open-connections", fmt.Sprintf("%d connections were open at once, MaxConns is %d", m, maxConns))
	}
	// (a) contiguous session blocks per connection
	lastSess := map[int]int{}
	doneSess := map[int]map[int]bool{}
	for _, e := range ev {
		if e.Kind != "srv-query" || e.Sess == 0 {
			continue
		}
		if doneSess[e.Conn] == nil {
			doneSess[e.Conn] = map[int]bool{}
		}
		if cur, ok := lastSess[e.Conn]; ok && cur != e.Sess {
			doneSess[e.Conn][cur] = true
		}
		if doneSess[e.Conn][e.Sess] {
			fail("two-holders-on-one-connection", fmt.Sprintf("connection %d: session %d sent a request after session %d had started on the same connection (interleaved holders)", e.Conn, e.Sess, lastSess[e.Conn]))
			break
		}
		lastSess[e.Conn] = e.Sess
	}
	// (c0) with a lifetime of 1 ns every release destroys: no connection may serve two acquisitions
	// (handle sessions, Pool.Do and Pool.Ping alike), so there are at least as many dials as
	// successful acquisitions
	if class == "destroy-on-release" {
		if d, n := int64(len(dialer.Conns())), okOps.Load(); d < n {
			fail("expired-connection-reissued", fmt.Sprintf("MaxConnLifetime is 1ns, %d acquisitions (Acquire / Pool.Do / Pool.Ping) succeeded but only %d connections were dialed: a connection past its lifetime served a later holder", n, d))
		}
	}
	// (c1) no holder was handed a connection whose transport the library had already closed
	for _, e := range ev {
		if e.Kind == "dead-conn-issued" {
			fail("dead-connection-reissued:closed-transport", fmt.Sprintf("session %d (holder %d): the first request on the freshly acquired connection failed on a closed transport: %s", e.Sess, e.Holder, e.Note))
			break
		}
	}
	// (c2) a holder's query carries only its own settings; the caller's Options.Settings is untouched
	for _, e := range ev {
		if e.Kind == "bad-settings" {
			fail("settings-of-another-holder", e.Note)
			break
		}
	}
	if spare := baseSettings[:cap(baseSettings)][1:]; true {
		for _, x := range spare {
			if x != (ch.Setting{}) {
				fail("caller-options-modified", fmt.Sprintf("the spare capacity of the caller's Options.Settings was written: %+v", x))
				break
			}
		}
	}
	// (d) no session after a release that must destroy
	destroyed := map[int]int64{}
	for _, e := range ev {
		if e.Kind == "release-ret" && e.Conn >= 0 {
			must := class == "destroy-on-release"
			for _, x := range ev {
				if x.Kind == "release-call" && x.Sess == e.Sess && x.Note == "true" {
					must = true
				}
			}
			if must {
				if _, ok := destroyed[e.Conn]; !ok {
					destroyed[e.Conn] = e.T
				}
			}
		}
		if e.Kind == "srv-query" {
			if t, ok := destroyed[e.Conn]; ok && e.T > t {
				fail("dead-connection-reissued", fmt.Sprintf("connection %d served session %d after it was released with a closed client / past its lifetime", e.Conn, e.Sess))
				break
			}
		}
	}
	// (b) linearizability of the lock history per connection
	if len(ops) > 0 {
		model := porcupine.Model{
			Partition: func(history []porcupine.Operation) [][]porcupine.Operation {
				m := map[int][]porcupine.Operation{}
				for _, o := range history {
					m[o.Output.(int)] = append(m[o.Output.(int)], o)
				}
				var keys []int
				for k := range m {
					keys = append(keys, k)
				}
				sort.Ints(keys)
				var out [][]porcupine.Operation
				for _, k := range keys {
					out = append(out, m[k])
				}
				return out
			},
			Init: func() interface{} { return 0 },
			Step: func(state, input, output interface{}) (bool, interface{}) {
				in := input.(lockIn)
				cur := state.(int)
				switch in.Op {
				case 0:
					return cur == 0, in.Holder
				case 1:
					return cur == in.Holder, 0
				default:
					return true, cur // a repeated release has no effect
				}
			},
			Equal: func(a, b interface{}) bool { return a.(int) == b.(int) },
		}
		res := porcupine.CheckOperationsTimeout(model, ops, 20*time.Second)
		switch res {
		case porcupine.Illegal:
			fail("not-linearizable", fmt.Sprintf("the acquire/release history (%d operations) is not linearizable against the one-holder-per-connection model", len(ops)))
		case porcupine.Unknown:
			r.Inconclusive("porcupine timed out")
		}
		r.Count("porcupine_operations", int64(len(ops)))
	}
	if contended.Load() > 0 {
		sort.Strings(histSig)
		r.NonTrivial(class, maxConns, strings.Join(histSig, "|"))
	}
	r.SetAdd("classes", class)
	if ci%40 == 0 {
		r.Sample(map[string]any{"case": desc, "events": len(ev), "lock_operations": len(ops), "connections_dialed": len(conns), "worker_histories": histSig})
	}
}

func c11MaxOpen(ev []c11Event, d *simDialer) int {
	// open = dialed so far - connections whose Close happened before (by the connection's own event log order)
	max := 0
	for _, e := range ev {
		if e.Kind == "dial" {
			var n int
			fmt.Sscanf(e.Note, "%d", &n)
			if n > max {
				max = n
			}
		}
	}
	return max
}
