package props

import (
	"bytes"
	"errors"
	"fmt"
	"math/rand"

	"github.com/ClickHouse/ch-go/proto"

	"verif/internal/core"
	"verif/internal/ref"
	"verif/internal/val"
)

func init() {
	Registry["C14"] = Spec{
		Fn:          c14,
		Level:       "exploration",
		Rule:        "operation histories over the alphabet {append 1 B, append forcing reallocation, append 0 B, ChainWrite(empty), ChainWrite(3 B), Flush ok, Flush failing after 0 / half / all-1 bytes} enumerated exhaustively up to length 6 (quick) / 8 (thorough), plus seeded random histories up to 200 ops with sizes up to 1 MiB, each run in lock-step with a list model against a recording sink; chained caller slices are poisoned after every flush; plus WriteColumn+Flush == EncodeColumn for every catalogue column. Non-trivial = history with >=1 ChainWrite between two buffer appends and >=1 flush; distinct = history",
		Assumptions: []string{"sink writers are plain io.Writers (net.Buffers.WriteTo falls back to sequential Write calls)"},
		MinDistinct: 1000,
		Exhaustive:  func(tier string) bool { return true },
	}
}

// recSink accepts at most `limit` more bytes (limit < 0: unlimited) and records what it accepted.
type recSink struct {
	got   []byte
	limit int
	calls int
}

var errSink = errors.New("sink: injected write error")

func (s *recSink) Write(p []byte) (int, error) {
	s.calls++
	if s.limit < 0 {
		s.got = append(s.got, p...)
		return len(p), nil
	}
	if len(p) <= s.limit {
		s.got = append(s.got, p...)
		s.limit -= len(p)
		if s.limit == 0 && len(p) > 0 {
			// exactly exhausted: next call fails
		}
		return len(p), nil
	}
	n := s.limit
	s.got = append(s.got, p[:n]...)
	s.limit = 0
	return n, errSink
}

type c14Runner struct {
	w       *proto.Writer
	sink    *recSink
	pending []byte   // model: everything appended/chained since the last flush
	chained [][]byte // caller-owned slices chained since the last flush (to poison)
	ctr     byte
	sawCW   bool
	ntriv   bool
	afterCW bool
}

func (c *c14Runner) next() byte { c.ctr++; return c.ctr }

func (c *c14Runner) appendBuf(n int) {
	b := make([]byte, n)
	for i := range b {
		b[i] = c.next()
	}
	c.w.ChainBuffer(func(buf *proto.Buffer) { buf.PutRaw(b) })
	c.pending = append(c.pending, b...)
	if n > 0 && c.afterCW {
		c.ntriv = true
	}
}

func (c *c14Runner) chain(n int) {
	b := make([]byte, n)
	for i := range b {
		b[i] = c.next()
	}
	c.w.ChainWrite(b)
	c.pending = append(c.pending, b...)
	c.chained = append(c.chained, b)
	if n > 0 && len(c.pending) > n {
		c.afterCW = true
	}
}

// flush with a byte budget (-1 = accept everything). Returns a description of a mismatch.
func (c *c14Runner) flush(budget int) string {
	c.sink.got = c.sink.got[:0]
	c.sink.limit = budget
	n, err := c.w.Flush()
	want := c.pending
	if budget >= 0 && budget < len(want) {
		want = want[:budget]
		if err == nil {
			return fmt.Sprintf("Flush returned nil although the writer failed after %d of %d bytes", budget, len(c.pending))
		}
	} else if err != nil {
		return fmt.Sprintf("Flush failed (%v) although the writer accepted everything", err)
	}
	if !bytes.Equal(c.sink.got, want) {
		return fmt.Sprintf("writer received %d bytes, model expects %d (first difference at %d): got %x want %x", len(c.sink.got), len(want), firstDiff(c.sink.got, want), clip(c.sink.got), clip(want))
	}
	if int(n) != len(want) && err == nil {
		return fmt.Sprintf("Flush reported %d bytes, %d were written", n, len(want))
	}
	for _, b := range c.chained {
		for i := range b {
			b[i] = 0xEE // poison caller memory: it must not be read again
		}
	}
	c.chained = c.chained[:0]
	c.pending = c.pending[:0]
	c.afterCW = false
	return ""
}

const c14Symbols = 9

func c14Apply(c *c14Runner, op int, big int) string {
	switch op {
	case 0:
		c.appendBuf(1)
	case 1:
		c.appendBuf(big)
	case 2:
		c.appendBuf(0)
	case 3:
		c.chain(0)
	case 4:
		c.chain(3)
	case 5:
		return c.flush(-1)
	case 6:
		return c.flush(0)
	case 7:
		return c.flush(len(c.pending) / 2)
	case 8:
		n := len(c.pending) - 1
		if n < 0 {
			n = 0
		}
		return c.flush(n)
	}
	return ""
}

func c14History(r *core.Run, ops []int, sizes []int) {
	sink := &recSink{limit: -1}
	c := &c14Runner{sink: sink, w: proto.NewWriter(sink, new(proto.Buffer))}
	flushes := 0
	fail := func(i int, msg string) {
		cls := "order-or-content"
		switch {
		case containsStr(msg, "returned nil"):
			cls = "error-swallowed"
		case containsStr(msg, "received") && flushes > 0:
			cls = "content-after-earlier-flush"
		}
		r.Violation("Writer:"+cls, fmt.Sprintf("history %v, op #%d: %s", ops, i, msg), map[string]any{"ops": ops, "sizes": sizes})
	}
	for i, op := range ops {
		big := 100
		if sizes != nil {
			big = sizes[i]
		}
		var msg string
		if p := core.Recover(func() { msg = c14Apply(c, op, big) }); p != "" {
			r.Violation("Writer:panic", fmt.Sprintf("history %v op #%d: %s", ops, i, p), map[string]any{"ops": ops, "sizes": sizes})
			return
		}
		if msg != "" {
			fail(i, msg)
			return
		}
		if op >= 5 {
			flushes++
		}
	}
	var msg string
	if p := core.Recover(func() { msg = c.flush(-1) }); p != "" {
		r.Violation("Writer:panic", fmt.Sprintf("history %v final flush: %s", ops, p), map[string]any{"ops": ops})
		return
	}
	if msg != "" {
		fail(len(ops), msg)
		return
	}
	if c.ntriv && flushes > 0 {
		r.NonTrivial(fmt.Sprint(ops), fmt.Sprint(sizes))
	}
}

func containsStr(s, sub string) bool { return bytes.Contains([]byte(s), []byte(sub)) }

func c14(r *core.Run) {
	maxLen := r.Pick(6, 8)
	var ci int64
	ops := make([]int, 0, 10)
	for L := 1; L <= maxLen; L++ {
		total := 1
		for i := 0; i < L; i++ {
			total *= c14Symbols
		}
		for h := 0; h < total; h++ {
			ci++
			if !r.Take(ci) {
				continue
			}
			ops = ops[:0]
			x := h
			for i := 0; i < L; i++ {
				ops = append(ops, x%c14Symbols)
				x /= c14Symbols
			}
			r.Eval()
			c14History(r, ops, nil)
			if h == total/3 {
				r.Sample(map[string]any{"history": append([]int(nil), ops...), "alphabet": "0=append1 1=append-realloc 2=append0 3=chain-empty 4=chain3 5=flush-ok 6=flush-fail@0 7=flush-fail@half 8=flush-fail@all-1"})
			}
		}
		r.SetAdd("exhaustive_lengths", fmt.Sprint(L))
	}
	// random long histories with random sizes
	n := r.Pick(20000, 200000)
	for k := 0; k < n; k++ {
		ci++
		if !r.Take(ci) {
			continue
		}
		rng := r.Rand(ci, "hist")
		L := 1 + rng.Intn(200)
		h := make([]int, L)
		sz := make([]int, L)
		for i := range h {
			h[i] = rng.Intn(c14Symbols)
			switch rng.Intn(20) {
			case 0:
				sz[i] = 1 << 20
			case 1, 2:
				sz[i] = 65536 + rng.Intn(100)
			default:
				sz[i] = 1 + rng.Intn(5000)
			}
		}
		r.Eval()
		c14History(r, h, sz)
	}
	// path equivalence: WriteColumn+Flush == EncodeColumn (after Prepare / with state)
	for ei, e := range val.Catalogue {
		for _, rows := range []int{0, 1, 9, 130} {
			ci++
			if !r.Take(ci) {
				continue
			}
			t, _ := ref.ParseType(e.Type)
			rng := r.Rand(ci, "col")
			lc := e.New()
			vals := val.GenColumn(rng, t, rows, val.GenOpt{})
			cs := map[string]any{"type": e.Type, "kind": e.Kind, "rows": rows}
			r.Eval()
			if p := core.Recover(func() {
				for _, v := range vals {
					lc.Append(v)
				}
				col := lc.Col()
				if pr, ok := col.(proto.Preparable); ok {
					if err := pr.Prepare(); err != nil {
						panic(err)
					}
				}
				var b proto.Buffer
				prefix := make([]byte, 1+rng.Intn(17))
				rng.Read(prefix)
				b.Buf = append(b.Buf, prefix...)
				col.EncodeColumn(&b)
				sink := &recSink{limit: -1}
				w := proto.NewWriter(sink, new(proto.Buffer))
				w.ChainBuffer(func(buf *proto.Buffer) { buf.PutRaw(prefix) })
				col.WriteColumn(w)
				if _, err := w.Flush(); err != nil {
					panic(err)
				}
				if !bytes.Equal(sink.got, b.Buf) {
					r.Violation("WriteColumn-differs:"+typeSite(t), fmt.Sprintf("%s (%s), %d rows: WriteColumn+Flush wrote %d bytes, EncodeColumn %d, first difference at %d", e.Type, e.Kind, rows, len(sink.got), len(b.Buf), firstDiff(sink.got, b.Buf)), cs)
				}
				if rows > 0 {
					r.NonTrivial("col", e.Kind, e.Type, rows, ei)
				}
			}); p != "" {
				r.Violation("WriteColumn-panic:"+typeSite(t), p, cs)
			}
		}
	}
	_ = rand.Int
}
