package props

import (
	"bytes"
	"errors"
	"fmt"
	"math/rand"
	"strings"

	"github.com/ClickHouse/ch-go/proto"

	"verif/internal/core"
	"verif/internal/ref"
	"verif/internal/val"
)

func init() {
	Registry["C14"] = Spec{
		Fn:          c14,
		Level:       "exploration",
		Rule:        "operation histories over the alphabet {append 1 B, append forcing reallocation, append 0 B, ChainWrite(empty), ChainWrite(3 B), Flush ok, Flush failing after 0 / half / all-1 bytes, Reset (drop what is pending)} enumerated exhaustively up to length 6 (quick) / 8 (thorough), plus seeded random histories up to 200 ops with sizes up to 1 MiB, each run in lock-step with a list model against a recording sink; chained caller slices are poisoned after every flush; plus WriteColumn+Flush == EncodeColumn for every catalogue column and WriteBlock+Flush == EncodeBlock for catalogue and random-composition blocks of 0 (with columns), 1, 3, 9 and 130 rows at every block revision. Non-trivial = history with >=1 ChainWrite between two buffer appends and >=1 flush; distinct = history",
		Assumptions: []string{"sink writers are plain io.Writers (net.Buffers.WriteTo falls back to sequential Write calls)"},
		MinDistinct: 1000,
		Exhaustive:  func(tier string) bool { return true },
	}
}

// recSink accepts at most `limit` more bytes (limit < 0: unlimited) and records what it accepted.
type recSink struct {
	got   []byte
	limit int
	calls int
}

var errSink = errors.New("sink: injected write error")

func (s *recSink) Write(p []byte) (int, error) {
	s.calls++
	if s.limit < 0 {
		s.got = append(s.got, p...)
		return len(p), nil
	}
	if len(p) <= s.limit {
		s.got = append(s.got, p...)
		s.limit -= len(p)
		if s.limit == 0 && len(p) > 0 {
			// exactly exhausted: next call fails
		}
		return len(p), nil
	}
	n := s.limit
	s.got = append(s.got, p[:n]...)
	s.limit = 0
	return n, errSink
}

type c14Runner struct {
	w       *proto.Writer
	sink    *recSink
	pending []byte   // model: everything appended/chained since the last flush
	chained [][]byte // caller-owned slices chained since the last flush (to poison)
	ctr     byte
	sawCW   bool
	ntriv   bool
	afterCW bool
}

func (c *c14Runner) next() byte { c.ctr++; return c.ctr }

func (c *c14Runner) appendBuf(n int) {
	b := make([]byte, n)
	for i := range b {
		b[i] = c.next()
	}
	c.w.ChainBuffer(func(buf *proto.Buffer) { buf.PutRaw(b) })
	c.pending = append(c.pending, b...)
	if n > 0 && c.afterCW {
		c.ntriv = true
	}
}

func (c *c14Runner) chain(n int) {
	b := make([]byte, n)
	for i := range b {
		b[i] = c.next()
	}
	c.w.ChainWrite(b)
	c.pending = append(c.pending, b...)
	c.chained = append(c.chained, b)
	if n > 0 && len(c.pending) > n {
		c.afterCW = true
	}
}

// flush with a byte budget (-1 = accept everything). Returns a description of a mismatch.
func (c *c14Runner) flush(budget int) string {
	c.sink.got = c.sink.got[:0]
	c.sink.limit = budget
	n, err := c.w.Flush()
	want := c.pending
	if budget >= 0 && budget < len(want) {
		want = want[:budget]
		if err == nil {
			return fmt.Sprintf("Flush returned nil although the writer failed after %d of %d bytes", budget, len(c.pending))
		}
	} else if err != nil {
		return fmt.Sprintf("Flush failed (%v) although the writer accepted everything", err)
	}
	if !bytes.Equal(c.sink.got, want) {
		return fmt.Sprintf("writer received %d bytes, model expects %d (first difference at %d): got %x want %x", len(c.sink.got), len(want), firstDiff(c.sink.got, want), clip(c.sink.got), clip(want))
	}
	if int(n) != len(want) && err == nil {
		return fmt.Sprintf("Flush reported %d bytes, %d were written", n, len(want))
	}
	for _, b := range c.chained {
		for i := range b {
			b[i] = 0xEE // poison caller memory: it must not be read again
		}
	}
	c.chained = c.chained[:0]
	c.pending = c.pending[:0]
	c.afterCW = false
	return ""
}

const c14Symbols = 10

func c14Apply(c *c14Runner, op int, big int) string {
	switch op {
	case 0:
		c.appendBuf(1)
	case 1:
		c.appendBuf(big)
	case 2:
		c.appendBuf(0)
	case 3:
		c.chain(0)
	case 4:
		c.chain(3)
	case 5:
		return c.flush(-1)
	case 6:
		return c.flush(0)
	case 7:
		return c.flush(len(c.pending) / 2)
	case 8:
		n := len(c.pending) - 1
		if n < 0 {
			n = 0
		}
		return c.flush(n)
	case 9:
		// Reset discards everything appended or chained since the last flush (the client uses it
		// to drop the unsent part of a failed query)
		c.w.Reset()
		for _, b := range c.chained {
			for i := range b {
				b[i] = 0xEE
			}
		}
		c.chained = c.chained[:0]
		c.pending = c.pending[:0]
		c.afterCW = false
	}
	return ""
}

func c14History(r *core.Run, ops []int, sizes []int) {
	sink := &recSink{limit: -1}
	c := &c14Runner{sink: sink, w: proto.NewWriter(sink, new(proto.Buffer))}
	flushes := 0
	fail := func(i int, msg string) {
		cls := "order-or-content"
		switch {
		case containsStr(msg, "returned nil"):
			cls = "error-swallowed"
		case containsStr(msg, "received") && flushes > 0:
			cls = "content-after-earlier-flush"
		}
		r.Violation("Writer:"+cls, fmt.Sprintf("history %v, op #%d: %s", ops, i, msg), map[string]any{"ops": ops, "sizes": sizes})
	}
	for i, op := range ops {
		big := 100
		if sizes != nil {
			big = sizes[i]
		}
		var msg string
		if p := core.Recover(func() { msg = c14Apply(c, op, big) }); p != "" {
			r.Violation("Writer:panic", fmt.Sprintf("history %v op #%d: %s", ops, i, p), map[string]any{"ops": ops, "sizes": sizes})
			return
		}
		if msg != "" {
			fail(i, msg)
			return
		}
		if op >= 5 && op <= 8 {
			flushes++
		}
	}
	var msg string
	if p := core.Recover(func() { msg = c.flush(-1) }); p != "" {
		r.Violation("Writer:panic", fmt.Sprintf("history %v final flush: %s", ops, p), map[string]any{"ops": ops})
		return
	}
	if msg != "" {
		fail(len(ops), msg)
		return
	}
	if c.ntriv && flushes > 0 {
		r.NonTrivial(fmt.Sprint(ops), fmt.Sprint(sizes))
	}
}

func containsStr(s, sub string) bool { return bytes.Contains([]byte(s), []byte(sub)) }

func c14(r *core.Run) {
	maxLen := r.Pick(6, 8)
	var ci int64
	ops := make([]int, 0, 10)
	for L := 1; L <= maxLen; L++ {
		total := 1
		for i := 0; i < L; i++ {
			total *= c14Symbols
		}
		for h := 0; h < total; h++ {
			ci++
			if !r.Take(ci) {
				continue
			}
			ops = ops[:0]
			x := h
			for i := 0; i < L; i++ {
				ops = append(ops, x%c14Symbols)
				x /= c14Symbols
			}
			r.Eval()
			c14History(r, ops, nil)
			if h == total/3 {
				r.Sample(map[string]any{"history": append([]int(nil), ops...), "alphabet": "0=append1 1=append-realloc 2=append0 3=chain-empty 4=chain3 5=flush-ok 6=flush-fail@0 7=flush-fail@half 8=flush-fail@all-1 9=Reset"})
			}
		}
		r.SetAdd("exhaustive_lengths", fmt.Sprint(L))
	}
	// random long histories with random sizes
	n := r.Pick(20000, 200000)
	for k := 0; k < n; k++ {
		ci++
		if !r.Take(ci) {
			continue
		}
		rng := r.Rand(ci, "hist")
		L := 1 + rng.Intn(200)
		h := make([]int, L)
		sz := make([]int, L)
		for i := range h {
			h[i] = rng.Intn(c14Symbols)
			switch rng.Intn(20) {
			case 0:
				sz[i] = 1 << 20
			case 1, 2:
				sz[i] = 65536 + rng.Intn(100)
			default:
				sz[i] = 1 + rng.Intn(5000)
			}
		}
		r.Eval()
		c14History(r, h, sz)
	}
	// path equivalence: WriteColumn+Flush == EncodeColumn (after Prepare / with state)
	for ei, e := range val.Catalogue {
		rowsList := []int{0, 1, 9, 130}
		if strings.Contains(e.Type, "LowCardinality") {
			// dictionaries that need 16-bit keys (300 and, thorough, 70000 distinct values: 32-bit keys)
			rowsList = append(rowsList, 600)
			if !r.Quick() {
				rowsList = append(rowsList, 140000)
			}
		}
		for _, rows := range rowsList {
			ci++
			if !r.Take(ci) {
				continue
			}
			t, _ := ref.ParseType(e.Type)
			rng := r.Rand(ci, "col")
			lc := e.New()
			vals := val.GenColumn(rng, t, rows, val.GenOpt{BigStr: rows == 9, Dict: rows / 2})
			cs := map[string]any{"type": e.Type, "kind": e.Kind, "rows": rows}
			r.Eval()
			if p := core.Recover(func() {
				for _, v := range vals {
					lc.Append(v)
				}
				col := lc.Col()
				if pr, ok := col.(proto.Preparable); ok {
					if err := pr.Prepare(); err != nil {
						panic(err)
					}
				}
				var b proto.Buffer
				prefix := make([]byte, 1+rng.Intn(17))
				rng.Read(prefix)
				b.Buf = append(b.Buf, prefix...)
				col.EncodeColumn(&b)
				sink := &recSink{limit: -1}
				w := proto.NewWriter(sink, new(proto.Buffer))
				w.ChainBuffer(func(buf *proto.Buffer) { buf.PutRaw(prefix) })
				col.WriteColumn(w)
				if _, err := w.Flush(); err != nil {
					panic(err)
				}
				// the writer's buffer already holds bytes when the writer is created, and receives
				// bytes directly between two columns
				sink2 := &recSink{limit: -1}
				pb := &proto.Buffer{Buf: append([]byte(nil), prefix...)}
				w2 := proto.NewWriter(sink2, pb)
				col.WriteColumn(w2)
				pb.Buf = append(pb.Buf, 0xC1, 0xC2)
				col.WriteColumn(w2)
				if _, err := w2.Flush(); err != nil {
					panic(err)
				}
				want2 := append(append(append([]byte(nil), b.Buf...), 0xC1, 0xC2), b.Buf[len(prefix):]...)
				if !bytes.Equal(sink2.got, want2) {
					r.Violation("WriteColumn-differs:prefilled-buffer:"+typeSite(t), fmt.Sprintf("%s (%s), %d rows: writer over a pre-filled buffer wrote %d bytes, expected %d, first difference at %d", e.Type, e.Kind, rows, len(sink2.got), len(want2), firstDiff(sink2.got, want2)), cs)
				}
				if !bytes.Equal(sink.got, b.Buf) {
					r.Violation("WriteColumn-differs:"+typeSite(t), fmt.Sprintf("%s (%s), %d rows: WriteColumn+Flush wrote %d bytes, EncodeColumn %d, first difference at %d", e.Type, e.Kind, rows, len(sink.got), len(b.Buf), firstDiff(sink.got, b.Buf)), cs)
				}
				if rows > 0 {
					r.NonTrivial("col", e.Kind, e.Type, rows, ei)
				}
			}); p != "" {
				r.Violation("WriteColumn-panic:"+typeSite(t), p, cs)
			}
		}
	}
	// path equivalence for whole blocks: WriteBlock+Flush == EncodeBlock, for the blocks of C01
	// (catalogue + random compositions, 0 rows with columns included, every block revision)
	nb := r.Pick(1200, 30000)
	for k := 0; k < nb; k++ {
		ci++
		if !r.Take(ci) {
			continue
		}
		rng := r.Rand(ci, "blk")
		sel := k % (len(val.Catalogue) + 60)
		rows := []int{0, 0, 1, 3, 9, 130}[rng.Intn(6)]
		rev := val.BlockRevisions[rng.Intn(len(val.BlockRevisions))]
		bc, err := genBlockCase(r, ci, sel, rows, rev, val.GenOpt{MaxElem: 3, BigStr: k%4 == 0})
		if err != nil {
			continue
		}
		r.Eval()
		if p := core.Recover(func() {
			src, err := bc.Mk()
			if err != nil {
				panic(err)
			}
			for _, v := range bc.Vals {
				src.Append(v)
			}
			idxCol := new(proto.ColUInt32)
			for i := 0; i < rows; i++ {
				idxCol.Append(uint32(i))
			}
			input := []proto.InputColumn{{Name: "v", Data: src.Col()}, {Name: "i", Data: idxCol}}
			switch bc.Order {
			case 1:
				input[0], input[1] = input[1], input[0]
			case 2:
				input = input[:1]
			}
			blk := proto.Block{Columns: len(input), Rows: rows, Info: proto.BlockInfo{BucketNum: -1}}
			sink := &recSink{limit: -1}
			w := proto.NewWriter(sink, new(proto.Buffer))
			prefix := make([]byte, rng.Intn(9))
			rng.Read(prefix)
			w.ChainBuffer(func(buf *proto.Buffer) { buf.PutRaw(prefix) })
			if err := blk.WriteBlock(w, rev, input); err != nil {
				panic(err)
			}
			if _, err := w.Flush(); err != nil {
				panic(err)
			}
			want := append(append([]byte(nil), prefix...), bc.Bytes...)
			if !bytes.Equal(sink.got, want) {
				cls := "rows>0"
				if rows == 0 {
					cls = "zero-rows"
				}
				r.Violation("WriteBlock-differs:"+cls+":"+typeSite(bc.T), fmt.Sprintf("%s (%s), %d rows, rev %d: WriteBlock+Flush wrote %d bytes, EncodeBlock %d, first difference at %d", bc.TS, bc.Kind, rows, rev, len(sink.got)-len(prefix), len(bc.Bytes), firstDiff(sink.got, want)-len(prefix)), bc.Desc())
			}
			r.NonTrivial("blk", bc.TS, rows, rev, bc.Order)
			r.SetAdd("block_rows", fmt.Sprint(rows))
		}); p != "" {
			r.Violation("WriteBlock-panic:"+typeSite(bc.T), p, bc.Desc())
		}
	}
	_ = rand.Int
}
