package props

import (
	"bytes"
	"fmt"
	"strings"
	"time"

	"github.com/ClickHouse/ch-go/proto"

	"verif/internal/core"
	"verif/internal/ref"
	"verif/internal/val"
)

// c16EnumReinfer: one ColEnum object is re-inferred between blocks with enum definitions that
// renumber, widen or extend the names; after every step the column must report the appended /
// decoded names and encode them with the numbers of the definition in force.
type enumDef struct {
	typ   string
	wide  bool
	names map[string]int
}

var c16EnumDefs = []enumDef{
	{"Enum8('a' = 1, 'b' = 2, 'c' = 3)", false, map[string]int{"a": 1, "b": 2, "c": 3}},
	{"Enum8('a' = 3, 'b' = 1, 'c' = 2)", false, map[string]int{"a": 3, "b": 1, "c": 2}},
	{"Enum16('a' = 100, 'b' = -5, 'c' = 7)", true, map[string]int{"a": 100, "b": -5, "c": 7}},
	{"Enum8('c' = 1, 'a' = 2, 'b' = -3, 'd' = 4)", false, map[string]int{"c": 1, "a": 2, "b": -3, "d": 4}},
	{"Enum16('a' = 1, 'b' = 2, 'c' = 3)", true, map[string]int{"a": 1, "b": 2, "c": 3}},
}

func (d enumDef) encode(names []string) []byte {
	var out []byte
	for _, n := range names {
		v := d.names[n]
		if d.wide {
			out = append(out, byte(uint16(int16(v))), byte(uint16(int16(v))>>8))
		} else {
			out = append(out, byte(int8(v)))
		}
	}
	return out
}

func c16EnumReinfer(r *core.Run, ci int64) {
	rng := r.Rand(ci, "enum")
	col := new(proto.ColEnum)
	def := c16EnumDefs[rng.Intn(len(c16EnumDefs))]
	var model, hist []string
	r.Eval()
	fail := func(cls, msg string) {
		r.Violation("ColEnum-reinfer:"+cls, fmt.Sprintf("%s after history [%s]", msg, strings.Join(hist, "; ")), map[string]any{"history": hist})
	}
	if err := col.Infer(proto.ColumnType(def.typ)); err != nil {
		fail("infer-error", err.Error())
		return
	}
	hist = append(hist, "Infer "+def.typ)
	abc := []string{"a", "b", "c"}
	encodes := 0
	for step := 0; step < 3+rng.Intn(10); step++ {
		bad := false
		p := core.Recover(func() {
			switch op := rng.Intn(6); op {
			case 0: // re-infer with another definition (all current names exist in every definition)
				def = c16EnumDefs[rng.Intn(len(c16EnumDefs))]
				hist = append(hist, "Infer "+def.typ)
				if err := col.Infer(proto.ColumnType(def.typ)); err != nil {
					fail("infer-error", err.Error())
					bad = true
				}
			case 1, 2:
				n := abc[rng.Intn(3)]
				col.Append(n)
				model = append(model, n)
				hist = append(hist, "Append "+n)
			case 3:
				col.Reset()
				model = model[:0]
				hist = append(hist, "Reset")
			case 4: // decode a block under the definition in force
				k := rng.Intn(5)
				var names []string
				for i := 0; i < k; i++ {
					names = append(names, abc[rng.Intn(3)])
				}
				hist = append(hist, fmt.Sprintf("Reset+Decode %v", names))
				col.Reset()
				if err := col.DecodeColumn(proto.NewReader(bytes.NewReader(def.encode(names))), k); err != nil {
					fail("decode-error", err.Error())
					bad = true
					return
				}
				model = append(model[:0], names...)
			default: // encode
				hist = append(hist, "Prepare+EncodeColumn")
				if err := col.Prepare(); err != nil {
					fail("prepare-error", err.Error())
					bad = true
					return
				}
				var b proto.Buffer
				col.EncodeColumn(&b)
				encodes++
				if want := def.encode(model); !bytes.Equal(b.Buf, want) {
					fail("encode-content", fmt.Sprintf("names %v under %s encode to % x, want % x", model, def.typ, b.Buf, want))
					bad = true
				}
			}
		})
		if p != "" {
			fail("panic", p)
			return
		}
		if bad {
			return
		}
		if col.Rows() != len(model) {
			fail("rows", fmt.Sprintf("Rows() = %d, model %d", col.Rows(), len(model)))
			return
		}
		for i, n := range model {
			if col.Row(i) != n {
				fail("row-value", fmt.Sprintf("Row(%d) = %q, model %q", i, col.Row(i), n))
				return
			}
		}
		if got := string(col.Type()); got != def.typ {
			fail("type", fmt.Sprintf("Type() = %q after Infer(%q)", got, def.typ))
			return
		}
	}
	if encodes >= 2 {
		r.NonTrivial("enum-reinfer", strings.Join(hist, ";"))
	}
}

// c16DT64Reinfer: one ColDateTime64 object meets blocks of changing precision / zone, the way
// Results.DecodeResult drives it (Infer on the still filled column, Reset, DecodeColumn), with
// appends and encodes in between. Raw values, Row(i) and Type() must follow the parameters in
// force, whatever the column held when they changed.
func c16DT64Reinfer(r *core.Run, ci int64) {
	rng := r.Rand(ci, "dt64")
	col := new(proto.ColDateTime64)
	var model []int64
	var hist []string
	p := 0
	pow := int64(1)
	r.Eval()
	fail := func(cls, msg string) {
		r.Violation("ColDateTime64-reinfer:"+cls, fmt.Sprintf("%s after history [%s]", msg, strings.Join(hist, "; ")), map[string]any{"history": hist})
	}
	setP := func(np int) {
		p, pow = np, 1
		for i := 0; i < np; i++ {
			pow *= 10
		}
	}
	typ := ""
	reinfer := func(withRows bool) bool {
		np := rng.Intn(10)
		typ = fmt.Sprintf("DateTime64(%d)", np)
		if rng.Intn(2) == 0 {
			typ = fmt.Sprintf("DateTime64(%d, 'UTC')", np)
		}
		k := 0
		if withRows {
			k = rng.Intn(5)
		}
		hist = append(hist, fmt.Sprintf("Infer %s + Reset + Decode %d rows", typ, k))
		if err := col.Infer(proto.ColumnType(typ)); err != nil {
			fail("infer-error", err.Error())
			return false
		}
		setP(np)
		col.Reset()
		model = model[:0]
		var raw []byte
		for i := 0; i < k; i++ {
			v := (rng.Int63n(4102444800) - 100000) * pow // within 1966..2100 at every precision
			model = append(model, v)
			for b := 0; b < 8; b++ {
				raw = append(raw, byte(uint64(v)>>(8*b)))
			}
		}
		if k > 0 {
			if err := col.DecodeColumn(proto.NewReader(bytes.NewReader(raw)), k); err != nil {
				fail("decode-error", err.Error())
				return false
			}
		}
		return true
	}
	if !reinfer(true) {
		return
	}
	encodes, changes := 0, 0
	for step := 0; step < 4+rng.Intn(10); step++ {
		ok := true
		pn := core.Recover(func() {
			switch rng.Intn(6) {
			case 0:
				ok = reinfer(true)
				changes++
			case 1, 2, 3:
				sec := rng.Int63n(4102444800) - 100000
				tick := rng.Int63n(pow)
				tt := time.Unix(sec, tick*(1e9/pow)).UTC()
				col.Append(tt)
				model = append(model, sec*pow+tick)
				hist = append(hist, "Append "+tt.Format(time.RFC3339Nano))
			case 4:
				col.Reset()
				model = model[:0]
				hist = append(hist, "Reset")
			default:
				hist = append(hist, "EncodeColumn")
				var b proto.Buffer
				col.EncodeColumn(&b)
				encodes++
				var want []byte
				for _, v := range model {
					for i := 0; i < 8; i++ {
						want = append(want, byte(uint64(v)>>(8*i)))
					}
				}
				if !bytes.Equal(b.Buf, want) {
					fail("encode-content", fmt.Sprintf("under %s the column encodes to % x, want % x", typ, clip(b.Buf), clip(want)))
					ok = false
				}
			}
		})
		if pn != "" {
			fail("panic", pn)
			return
		}
		if !ok {
			return
		}
		if col.Rows() != len(model) {
			fail("rows", fmt.Sprintf("Rows() = %d, model %d", col.Rows(), len(model)))
			return
		}
		for i, v := range model {
			got := col.Row(i)
			sec, tick := v/pow, v%pow
			if tick < 0 {
				sec, tick = sec-1, tick+pow
			}
			if got.Unix() != sec || int64(got.Nanosecond()) != tick*(1e9/pow) {
				fail("row-value", fmt.Sprintf("Row(%d) = %s for raw value %d at precision %d", i, got.UTC().Format(time.RFC3339Nano), v, p))
				return
			}
		}
		if got := col.Type(); got.Conflicts(proto.ColumnType(typ)) || !strings.HasPrefix(string(got), fmt.Sprintf("DateTime64(%d", p)) {
			fail("type", fmt.Sprintf("Type() = %q after Infer(%q)", got, typ))
			return
		}
	}
	if encodes >= 1 && changes >= 1 {
		r.NonTrivial("dt64-reinfer", strings.Join(hist, ";"))
	}
}

// c16AutoTarget: a *proto.ColAuto bound as a result target across blocks, as AutoResult /
// Results.Auto() keep it: valid blocks, blocks that fail part-way (truncated, or with the last
// bytes overwritten so that a key / value is rejected) and explicit Resets in any order; after
// every valid block the target must hold exactly that block's rows.
var c16AutoTypes = []string{"LowCardinality(String)", "Array(LowCardinality(String))", "Enum8('a' = 1, 'b' = 2)", "String", "Array(String)", "Nullable(String)",
	"LowCardinality(Nullable(String))", "Map(String, String)", "Array(Nullable(Int32))", "DateTime64(3)", "UInt64", "Bool", "Array(Enum16('x' = -300, 'y' = 1000))", "FixedString(4)", "UUID"}

func c16AutoTarget(r *core.Run, ci int64) {
	rng := r.Rand(ci, "auto")
	ts := c16AutoTypes[int(ci)%len(c16AutoTypes)]
	t, err := ref.ParseType(ts)
	if err != nil {
		return
	}
	auto := &proto.ColAuto{}
	if err := auto.Infer(proto.ColumnType(ts)); err != nil {
		r.Note("ColAuto cannot infer " + ts)
		return
	}
	res := proto.Results{{Name: "c", Data: auto}}
	var hist []string
	r.Eval()
	fail := func(cls, msg string) {
		r.Violation("ColAuto-target:"+cls+":"+typeSite(t), fmt.Sprintf("%s: %s after history [%s]", ts, msg, strings.Join(hist, "; ")), map[string]any{"type": ts, "history": hist})
	}
	valid, failed := 0, 0
	for step := 0; step < 3+rng.Intn(8); step++ {
		n := []int{0, 1, 2, 5, 9}[rng.Intn(5)]
		vs := val.GenColumn(rng, t, n, val.GenOpt{MaxElem: 3})
		var w ref.W
		if err := ref.EncodeBlock(&w, 54460, &ref.Block{Info: ref.BlockInfo{Bucket: -1}, Rows: n, Cols: []ref.Col{{Name: "c", Type: ts, Vals: vs}}}); err != nil {
			return
		}
		data := w.B
		kind := rng.Intn(5)
		switch {
		case kind == 0 && n > 0 && len(data) > 8:
			data = data[:len(data)-1-rng.Intn(min(len(data)-1, 12))]
			hist = append(hist, fmt.Sprintf("truncated block (%d rows)", n))
		case kind == 1 && n > 0 && len(data) > 8:
			data = append([]byte(nil), data...)
			for i := 1; i <= 1+rng.Intn(8) && i <= len(data); i++ {
				data[len(data)-i] = 0xFF
			}
			hist = append(hist, fmt.Sprintf("block with its last bytes set to ff (%d rows)", n))
		case kind == 2:
			hist = append(hist, "Reset")
			if p := core.Recover(func() { auto.Reset() }); p != "" {
				fail("panic", p)
				return
			}
			continue
		default:
			hist = append(hist, fmt.Sprintf("valid block (%d rows)", n))
			kind = 9
		}
		var blk proto.Block
		var derr error
		if p := core.Recover(func() { derr = blk.DecodeBlock(proto.NewReader(bytes.NewReader(data)), 54460, res) }); p != "" {
			fail("panic", p)
			return
		}
		if kind != 9 {
			if derr != nil {
				failed++
			}
			continue // whatever an altered block gave, the next valid one decides
		}
		if derr != nil {
			fail("decode-error", fmt.Sprintf("a valid block of %d rows was rejected: %v", n, derr))
			return
		}
		valid++
		got, err := val.ReadCol(auto, t)
		if err != nil {
			if strings.Contains(err.Error(), "unordered") {
				continue
			}
			fail("row-accessor", err.Error())
			return
		}
		if d := diffVals(vs, got); d != "" {
			fail("values", "the target does not hold the rows of the block just decoded: "+d)
			return
		}
	}
	if valid >= 2 || (valid >= 1 && failed >= 1) {
		r.NonTrivial("auto-target", ts, strings.Join(hist, ";"))
	}
}
