package props

import (
	"bytes"
	"fmt"
	"sort"

	"github.com/ClickHouse/ch-go/compress"
	"github.com/ClickHouse/ch-go/proto"

	"verif/internal/core"
	"verif/internal/ref"
	"verif/internal/val"
)

func init() {
	Registry["C07"] = Spec{
		Fn:          c07,
		Level:       "fault_enumeration",
		Rule:        "encodings = library-encoded blocks of every catalogue column and of random compositions (as C01) and every protocol message at threshold-neighbour revisions (as C17); fault points = every cut position 0..len-1 for encodings <= 1 KiB (quick) / 4 KiB (thorough), otherwise all positions of the first and last 200/512 bytes plus 200/512 random cuts; blocks with the tested column first, last or alone, zero-row blocks with columns, and blocks that end inside a 40 KiB..1 MiB string; plain stream, one compressed frame per method and the block split over 2..4 frames of mixed methods (None, LZ4, LZ4HC, ZSTD; cuts inside checksum, header, body); typed and inferred (Results.Auto) decoding. A violation is a proper prefix whose decode returns nil. Non-trivial = encoding of >= 2 bytes; distinct = (encoding, transport, decoder, cut)",
		Assumptions: []string{"the complete encoding decodes and consumes exactly its length (checked here first; otherwise the case is skipped and left to C01/C17)"},
		MinDistinct: 2000,
	}
}

func cutPositions(r *core.Run, idx int64, n int) []int {
	lim, edge := 4096, 512
	if r.Quick() {
		lim, edge = 1024, 200
	}
	if n <= lim {
		out := make([]int, n)
		for i := range out {
			out[i] = i
		}
		return out
	}
	set := map[int]bool{}
	for i := 0; i < edge; i++ {
		set[i] = true
		set[n-1-i] = true
	}
	rng := r.Rand(idx, "cuts")
	for i := 0; i < edge; i++ {
		set[rng.Intn(n)] = true
	}
	var out []int
	for k := range set {
		out = append(out, k)
	}
	sort.Ints(out)
	return out
}

var c07TailTypes = []string{"String", "Array(String)", "Nullable(String)", "Map(String, String)", "Map(String, Array(String))", "JSON", "Array(Array(String))", "Array(Nullable(String))"}

func catalogueIndex(ts string) int {
	for i, e := range val.Catalogue {
		if e.Type == ts {
			return i
		}
	}
	return -1
}

func c07(r *core.Run) {
	var ci int64
	// ---- blocks ----
	nRandom := r.Pick(200, 2000)
	total := len(val.Catalogue) + nRandom + len(c07TailTypes)*3
	for k := 0; k < total; k++ {
		ci++
		if !r.Take(ci) {
			continue
		}
		rng := r.Rand(ci, "c07")
		rows := []int{1, 2, 3, 9}[rng.Intn(4)]
		if rng.Intn(10) == 0 {
			rows = 130
		}
		if k%8 == 5 {
			rows = 0 // a header block: columns without rows (its last byte is a per-column flag or a type)
		}
		rev := val.BlockRevisions[rng.Intn(len(val.BlockRevisions))]
		opt := val.GenOpt{MaxElem: 3, BigStr: rng.Intn(20) == 0}
		sel := k
		if k >= total-len(c07TailTypes)*3 {
			// blocks that end inside a large string value
			j := k - (total - len(c07TailTypes)*3)
			sel = catalogueIndex(c07TailTypes[j%len(c07TailTypes)])
			opt.TailStr = []int{40000, 65537, 70000, 200000, 1 << 20}[(j/len(c07TailTypes)+int(r.Seed))%r.Pick(3, 5)]
			opt.MaxElem = 2
			rows = 2
		}
		bc, err := genBlockCase(r, ci, sel, rows, rev, opt)
		if err != nil {
			r.Note("skipped: " + err.Error())
			continue
		}
		r.CaseLog(fmt.Sprintf("%d %v", ci, bc.Desc()))
		// full input must decode and consume exactly
		_, res, err := bc.targets()
		if err != nil {
			continue
		}
		if _, derr, exact := libDecode(bc.Bytes, bc.Rev, res); derr != nil || !exact {
			r.Note(fmt.Sprintf("skipped %s: full decode err=%v exact=%v (C01's business)", bc.TS, derr, exact))
			continue
		}
		var auto proto.ColAuto
		inferable := core.Recover(func() { err = auto.Infer(proto.ColumnType(bc.TS)) }) == "" && err == nil
		r.Sample(bc.Desc())
		// transports: plain + compressed frames
		type transport struct {
			name   string
			stream []byte
			comp   bool
		}
		trs := []transport{{"plain", bc.Bytes, false}}
		cm := []c05Method{{compress.None, 0, "NONE"}, {compress.LZ4, 0, "LZ4"}, {compress.LZ4HC, 9, "LZ4HC"}, {compress.ZSTD, 0, "ZSTD"}}
		m := cm[int(ci)%len(cm)]
		w := compress.NewWriter(m.Level, m.M)
		if err := w.Compress(bc.Bytes); err == nil {
			trs = append(trs, transport{"compressed:" + m.Name, append([]byte(nil), w.Data...), true})
		}
		// the same block carried by several frames (a server splits large blocks; each piece is a
		// frame of its own, possibly of another method): cuts at and after the first frame boundary
		if len(bc.Bytes) >= 4 {
			prng := r.Rand(ci, "multiframe")
			np := 2 + prng.Intn(3)
			var multi []byte
			at := 0
			for i := 0; i < np; i++ {
				end := len(bc.Bytes)
				if i < np-1 {
					end = at + 1 + prng.Intn(max(1, (len(bc.Bytes)-at)/2))
				}
				cw := compress.NewWriter(0, []compress.Method{compress.None, compress.LZ4, compress.ZSTD}[prng.Intn(3)])
				if cw.Compress(bc.Bytes[at:end]) != nil {
					multi = nil
					break
				}
				multi = append(multi, cw.Data...)
				at = end
			}
			if multi != nil {
				trs = append(trs, transport{fmt.Sprintf("compressed:%d-frames", np), multi, true})
			}
		}
		for _, tr := range trs {
			cuts := cutPositions(r, ci, len(tr.stream))
			decoders := []string{"typed"}
			if inferable {
				decoders = append(decoders, "auto")
			}
			for _, dec := range decoders {
				_, res, _ := bc.targets()
				for _, cut := range cuts {
					r.Eval()
					if len(tr.stream) >= 2 {
						r.NonTrivial(bc.TS, bc.Rev, tr.name, dec, cut, core.Hash(bc.Bytes))
					}
					rd := proto.NewReader(bytes.NewReader(tr.stream[:cut]))
					if tr.comp {
						rd.EnableCompression()
					}
					var blk proto.Block
					var derr error
					var target proto.Result = res
					var ares proto.Results
					if dec == "auto" {
						target = ares.Auto()
					}
					if p := core.Recover(func() { derr = blk.DecodeBlock(rd, bc.Rev, target) }); p != "" {
						r.Violation("truncated-block-panic:"+tr.name, fmt.Sprintf("%s cut at %d of %d: %s", bc.TS, cut, len(tr.stream), p), map[string]any{"case": bc.Desc(), "cut": cut, "transport": tr.name, "decoder": dec})
						continue
					}
					if derr == nil {
						cls := "plain"
						if tr.comp {
							cls = "compressed"
						}
						r.Violation("truncated-block-accepted:"+cls+":"+typeSite(bc.T), fmt.Sprintf("%s (%s, %d rows, rev %d) %s/%s: prefix of %d of %d bytes decoded without error (rows=%d)", bc.TS, bc.Kind, bc.Rows, bc.Rev, tr.name, dec, cut, len(tr.stream), blk.Rows), map[string]any{"case": bc.Desc(), "cut": cut, "transport": tr.name, "decoder": dec})
					}
				}
			}
			r.SetAdd("transports", tr.name)
		}
	}
	// ---- messages ----
	revs := c17Revisions(r)
	if !r.Quick() {
		revs = nil
		set := map[int]bool{}
		for _, t := range ref.Thresholds {
			set[t-1], set[t], set[t+1] = true, true, true
		}
		for v := range set {
			revs = append(revs, v)
		}
		sort.Ints(revs)
	}
	for _, rev := range revs {
		for k := 0; k < r.Pick(2, 12); k++ {
			ci++
			if !r.Take(ci) {
				continue
			}
			rng := r.Rand(ci, "msg")
			for _, mc := range genMessages(rng, rev) {
				if full, err := mc.Decode(bytes.NewReader(mc.Bytes)); err != nil {
					_ = full
					r.Note(fmt.Sprintf("skipped %s rev %d: full decode fails (%v)", mc.Name, rev, err))
					continue
				}
				for _, cut := range cutPositions(r, ci, len(mc.Bytes)) {
					r.Eval()
					if len(mc.Bytes) >= 2 {
						r.NonTrivial(mc.Name, rev, cut, core.Hash(mc.Bytes))
					}
					var derr error
					if p := core.Recover(func() { _, derr = mc.Decode(bytes.NewReader(mc.Bytes[:cut])) }); p != "" {
						r.Violation("truncated-message-panic:"+mc.Name, p, map[string]any{"message": mc.Name, "rev": rev, "cut": cut, "bytes": mc.Bytes})
						continue
					}
					if derr == nil {
						r.Violation("truncated-message-accepted:"+mc.Name, fmt.Sprintf("%s at rev %d: prefix of %d of %d bytes decoded without error", mc.Name, rev, cut, len(mc.Bytes)), map[string]any{"message": mc.Name, "rev": rev, "cut": cut, "bytes": mc.Bytes})
					}
				}
				r.SetAdd("messages", mc.Name)
			}
		}
	}
}
