package props

import (
	"context"
	"fmt"
	"os"
	"path/filepath"
	"regexp"
	"runtime"
	"sort"
	"strings"
	"time"

	"verif/internal/core"
)

func init() {
	Registry["C12"] = Spec{
		Fn:           c12,
		Level:        "exploration",
		Builds:       []string{"race"},
		Shards:       8,
		Rule:         "the scenario suites of C03/C04/C09/C10/C11 are executed in a -race build: every query scenario (select, telemetry, insert, streamed insert with progress/profile-event packets arriving while blocks are sent, compressed variants, external data) with OpenTelemetryInstrumentation on and off, fault-free and with cancel / foreign Close / exception / callback failure injected at every gate of the pilot trace, repeated (quick x3, thorough x40) under GOMAXPROCS in {2, 4, 16}; shared pools with 1..12 goroutines and a 1-2 ms health checker; pools and directly dialled clients that share one caller-owned Options value (its *net.Dialer and Settings slice) over loopback TCP, 2..11 goroutines starting together. The harness obeys the API contract (no concurrent Do/Ping on one client, input columns touched only inside OnInput). Oracle: the Go race detector; its log files are parsed in the parent, reports are deduplicated by stack pair, and a report counts as a violation iff at least one stack has a frame in github.com/ClickHouse/ch-go (a race wholly inside the harness fails the run as a broken monitor). Non-trivial = sender and receiver both executed hook points in the run; distinct = interleaving signatures (hash of the per-execution hook order)",
		Assumptions:  []string{"a clean run means no race was reported on the interleavings observed, nothing more", "Go race detector (ThreadSanitizer runtime) as shipped with go1.23"},
		MinDistinct:  20,
		Post:         c12Post,
		TimeoutQuick: 20 * time.Minute,
	}
}

func c12(r *core.Run) {
	procs := []int{2, 4, 16}[r.Shard%3]
	old := runtime.GOMAXPROCS(procs)
	defer runtime.GOMAXPROCS(old)
	r.SetAdd("gomaxprocs", fmt.Sprint(procs))
	reps := r.Pick(3, 40)
	var ci int64
	for si, base := range scenarios {
		for _, otel := range []bool{false, true} {
			sc := base
			sc.Otel = otel
			sc.Name = fmt.Sprintf("%s/otel=%v", base.Name, otel)
			seed := int64(1000*si) + r.Seed
			pilot := runScenario(sc, seed, nil, 100*time.Millisecond, bgCtx)
			if pilot.Sim != nil && pilot.Sim.Client != nil {
				pilot.Sim.Client.Close()
			}
			if !pilot.Returned {
				r.Inconclusive("pilot did not return: " + sc.Name)
				continue
			}
			gates := gatesOf(pilot)
			var plans []*fault
			plans = append(plans, nil)
			for gi, g := range gates {
				plans = append(plans, &fault{Kind: "cancel", Gate: g}, &fault{Kind: "foreign-close", Gate: g})
				if strings.HasPrefix(g, "hook:cancel:") || strings.HasPrefix(g, "srv:before:") {
					// a Close from a goroutine that is causally independent of the query and lands
					// while Do is finishing or just after it returned
					plans = append(plans, &fault{Kind: "foreign-close-late", Gate: g, K: int64(gi)})
				}
				if gi%3 == 0 {
					plans = append(plans, &fault{Kind: "exception", Gate: g})
				}
				if strings.HasPrefix(g, "cb:") {
					plans = append(plans, &fault{Kind: "callback-fail", Gate: g})
				}
			}
			for _, f := range plans {
				for k := 0; k < reps; k++ {
					ci++
					if !r.Take(ci) {
						continue
					}
					r.CaseLog(fmt.Sprintf("%d %s %s #%d", ci, sc.Name, f, k))
					mk := func() (context.Context, context.CancelFunc) {
						return context.WithTimeout(context.Background(), 5*time.Second)
					}
					o := runScenario(sc, seed+int64(k), f, 50*time.Millisecond, mk)
					r.Eval()
					if o.Sim != nil && o.Sim.Client != nil {
						o.Sim.Client.Close()
					}
					if !o.Returned {
						r.Inconclusive(fmt.Sprintf("%s %s did not return", sc.Name, f))
						continue
					}
					sender, receiver := false, false
					for _, h := range o.Hooks {
						if strings.HasPrefix(h, "sender:") {
							sender = true
						}
						if strings.HasPrefix(h, "receiver:") {
							receiver = true
						}
					}
					if sender && receiver {
						r.NonTrivial(fmt.Sprintf("%016x", hookSignature(o.Hooks)))
					}
					r.SetAdd("scenarios", sc.Name)
				}
			}
		}
	}
	// shared pools with the health checker running
	for k := 0; k < r.Pick(60, 1500); k++ {
		ci++
		if !r.Take(ci) {
			continue
		}
		c11History(r, ci)
	}
	// shared pools dialled over loopback TCP by the caller's own *net.Dialer
	for k := 0; k < r.Pick(24, 400); k++ {
		ci++
		if !r.Take(ci) {
			continue
		}
		c12SharedOptions(r, ci)
	}
}

var reRaceSplit = regexp.MustCompile(`(?m)^==================\n`)

func c12Post(work, tier string, builds []string, shards int) ([]core.Violation, map[string]any) {
	files, _ := filepath.Glob(filepath.Join(work, "race-*"))
	type rep struct {
		text string
		lib  bool
	}
	uniq := map[string]rep{}
	total := 0
	for _, fn := range files {
		b, err := os.ReadFile(fn)
		if err != nil {
			continue
		}
		for _, blk := range reRaceSplit.Split(string(b), -1) {
			if !strings.Contains(blk, "WARNING: DATA RACE") {
				continue
			}
			total++
			// signature: function names of all frames, line numbers stripped; the race is "in the
			// library" when the accessing function (top frame) of either access is library code
			var sig []string
			lib := false
			lines := strings.Split(blk, "\n")
			for li, line := range lines {
				t := strings.TrimSpace(line)
				if strings.HasPrefix(t, "github.com/") || strings.HasPrefix(t, "verif/") || strings.HasPrefix(t, "golang.org/") {
					fn := t
					if i := strings.Index(fn, "("); i > 0 {
						fn = fn[:i]
					}
					sig = append(sig, fn)
				}
				if (strings.Contains(line, " by goroutine ") || strings.Contains(line, " by main goroutine")) && (strings.HasPrefix(t, "Read at") || strings.HasPrefix(t, "Write at") || strings.HasPrefix(t, "Previous read at") || strings.HasPrefix(t, "Previous write at") || strings.HasPrefix(t, "Atomic")) {
					// top frames: skip runtime/sync internals
					for j := li + 1; j < len(lines) && j < li+40; j += 2 {
						f := strings.TrimSpace(lines[j])
						if f == "" {
							break
						}
						// the first frame that belongs to the library or to the harness owns the access
						// (standard library and third-party frames above it are skipped)
						if strings.HasPrefix(f, "github.com/ClickHouse/ch-go") {
							lib = true
							break
						}
						if strings.HasPrefix(f, "verif/") {
							break
						}
					}
				}
			}
			key := strings.Join(sig, "|")
			if _, ok := uniq[key]; !ok {
				uniq[key] = rep{blk, lib}
			}
		}
	}
	var out []core.Violation
	var keys []string
	for k := range uniq {
		keys = append(keys, k)
	}
	sort.Strings(keys)
	libReports, harnessReports := 0, 0
	for _, k := range keys {
		u := uniq[k]
		first := ""
		for _, p := range strings.Split(k, "|") {
			if strings.HasPrefix(p, "github.com/ClickHouse/ch-go") {
				first = strings.TrimPrefix(p, "github.com/ClickHouse/ch-go")
				break
			}
		}
		if u.lib {
			libReports++
			out = append(out, core.Violation{Key: "C12:data-race:" + first, What: "the race detector reports a data race with a frame inside the library:\n" + clipS2(u.text, 3500), Replay: map[string]any{"report": u.text}})
		} else {
			harnessReports++
			out = append(out, core.Violation{Key: "C12:harness:race-in-monitor", What: "a data race wholly inside the harness (broken monitor):\n" + clipS2(u.text, 3000)})
		}
	}
	return out, map[string]any{"race_log_files": len(files), "race_reports_total": total, "distinct_reports": len(uniq), "reports_with_library_frames": libReports, "reports_harness_only": harnessReports}
}

func clipS2(s string, n int) string {
	if len(s) > n {
		return s[:n] + "..."
	}
	return s
}
