package props

import (
	"bytes"
	"fmt"
	"math/rand"
	"sort"
	"strings"
	"sync"
	"time"

	"github.com/ClickHouse/ch-go/proto"

	"verif/internal/core"
	"verif/internal/ref"
	"verif/internal/val"
)

func init() {
	Registry["C18"] = Spec{
		Fn:          c18,
		Level:       "exploration",
		Rule:        "pairs (block schema, target list) over a pool of ~120 types (every catalogue type plus boxed compositions): equal, permuted, renamed, extra/missing column, one type swapped for every other pool type (thorough: all ordered pairs), every ordered pair of the enum-related pool types (raw ColEnum8/ColEnum16, inferable ColEnum, compositions, Int8/Int16) in three layouts (first, last, alone), Map / Tuple / Array(Map) pairs that differ in one inner position behind plain and parameterised first elements, zero-row header blocks with/without targets, blank target names, sequences of 2..4 blocks with changing schemas against the same targets, typed / single ResultColumn / AutoResult targets, inferable targets (Enum, DateTime zone, DateTime64 precision/zone, Array/Nullable/Map/Tuple of them). Blocks are reference-encoded with per-column unique values. Oracle: reference compatibility relation (compatible -> decodes to the block's values; incompatible -> error naming the column/index; unspecified -> no panic, no foreign data); after any failure every target holds only rows of its own matching column. Non-trivial = >=2 columns or a parameterised type; distinct = (schema, targets, mutation)",
		Assumptions: []string{"reference compatibility relation as in C19", "block columns carry unique values so ownership of a row is decidable"},
		MinDistinct: 300,
	}
}

type c18Col struct {
	Name string
	TS   string
	T    *ref.Type
	Vals []ref.Val
}

type c18Target struct {
	Name string
	TS   string // declared type of the target ("" for inferable specials)
	T    *ref.Type
	Col  val.LibCol
}

func c18Pool() []val.Entry {
	var out []val.Entry
	seen := map[string]bool{}
	for _, e := range val.Catalogue {
		if strings.Contains(e.Type, "Nothing") || seen[e.Type+e.Kind] {
			continue
		}
		// keep the pool at a manageable size: all leaves, and composites of a few leaves
		if e.Leaf || strings.Contains(e.Type, "String") || strings.Contains(e.Type, "Int32") || strings.Contains(e.Type, "DateTime64(3)") || strings.Contains(e.Type, "Enum8('a'") || strings.Contains(e.Type, "Decimal(9") {
			seen[e.Type+e.Kind] = true
			out = append(out, e)
		}
	}
	return out
}

func c18Block(rng *rand.Rand, cols []c18Col, rows int) []byte {
	rb := &ref.Block{Rows: rows}
	for i := range cols {
		cols[i].Vals = val.GenColumn(rng, cols[i].T, rows, val.GenOpt{MaxElem: 2})
		rb.Cols = append(rb.Cols, ref.Col{Name: cols[i].Name, Type: cols[i].TS, Vals: cols[i].Vals})
	}
	var w ref.W
	if err := ref.EncodeBlock(&w, 54460, rb); err != nil {
		panic(err)
	}
	return w.B
}

// c18Check decodes data into targets and judges the outcome.
func c18Check(r *core.Run, what string, cols []c18Col, rows int, data []byte, targets []c18Target, cs any, reuse ...*proto.Results) (decoded bool) {
	res := make(proto.Results, len(targets))
	for i, t := range targets {
		res[i] = proto.ResultColumn{Name: t.Name, Data: t.Col.Col()}
	}
	if len(reuse) > 0 {
		// the same Results value is bound for the whole sequence, as a caller would do
		if *reuse[0] == nil {
			*reuse[0] = res
		}
		res = *reuse[0]
	}
	// contents before the call: a target may legitimately keep the rows of an earlier block
	before := make([][]ref.Val, len(targets))
	for i, t := range targets {
		_ = core.Recover(func() { before[i] = readAll(t.Col) })
	}
	var derr error
	var blk proto.Block
	if p := core.Recover(func() {
		derr = blk.DecodeBlock(proto.NewReader(bytes.NewReader(data)), 54460, res)
	}); p != "" {
		r.Violation("decode-panic:"+what, p, cs)
		return false
	}
	// expectation
	expectErr, why, specified := false, "", true
	viaEquivalence := false
	if len(cols) != len(targets) && !(len(targets) == 0 && rows == 0) {
		expectErr, why = true, fmt.Sprintf("column count %d vs %d targets", len(cols), len(targets))
	} else if len(targets) > 0 {
		for i := range cols {
			if targets[i].Name != "" && targets[i].Name != cols[i].Name {
				expectErr, why = true, fmt.Sprintf("column %d named %q, target %q", i, cols[i].Name, targets[i].Name)
				break
			}
			if targets[i].T == nil {
				continue
			}
			if strings.HasPrefix(targets[i].Col.Kind(), "typed:ColEnum(") {
				// ColEnum is inferable: it adopts any enum definition of the block
				if cols[i].T.Base == "Enum8" || cols[i].T.Base == "Enum16" {
					continue
				}
				expectErr, why = true, fmt.Sprintf("column %d type %q vs ColEnum target", i, cols[i].TS)
				break
			}
			if normType(cols[i].T) != normType(targets[i].T) {
				viaEquivalence = true
			}
			conf, ok := refConflictEnum(cols[i].T, targets[i].T, strings.Contains(targets[i].Col.Kind(), "ColEnum("))
			if !ok {
				specified = false
				break
			}
			if conf {
				expectErr, why = true, fmt.Sprintf("column %d type %q vs target type %q", i, cols[i].TS, targets[i].TS)
				break
			}
		}
	}
	if specified {
		if expectErr && derr == nil {
			r.Violation("incompatible-accepted:"+what, fmt.Sprintf("%s: decoded without error although %s", what, why), cs)
			return false
		}
		if !expectErr && derr != nil && viaEquivalence {
			// the statement makes compatibility necessary, not sufficient: a clean refusal of a
			// cross-family equivalence (e.g. Int8 data into an inferable enum target) is allowed
			r.Count("equivalent_types_refused_cleanly", 1)
		} else if !expectErr && derr != nil {
			r.Violation("compatible-rejected:"+what, fmt.Sprintf("%s: compatible schema rejected: %v", what, derr), cs)
			return false
		}
		if expectErr && derr != nil {
			// the error must name the mismatch (a column name, an index or the counts)
			msg := derr.Error()
			named := strings.Contains(msg, "(columns)") || strings.Contains(msg, "[")
			for _, c := range cols {
				if c.Name != "" && strings.Contains(msg, fmt.Sprintf("%q", c.Name)) {
					named = true
				}
			}
			if !named {
				r.Violation("error-does-not-name-mismatch:"+what, fmt.Sprintf("%s: error %q names neither column nor index", what, msg), cs)
			}
		}
	}
	// no target may hold another column's data
	for j, t := range targets {
		n := 0
		if p := core.Recover(func() { n = t.Col.Col().Rows() }); p != "" {
			continue
		}
		if n == 0 {
			continue
		}
		if j >= len(cols) {
			r.Violation("foreign-data:"+what, fmt.Sprintf("%s: target %d holds %d rows but the block has %d columns", what, j, n, len(cols)), cs)
			continue
		}
		nameOK := t.Name == "" || t.Name == cols[j].Name || res[j].Name == cols[j].Name
		if derr != nil && diffVals(before[j], readAllSafe(t.Col)) == "" {
			continue // unchanged: still the rows of an earlier block
		}
		if derr != nil && !nameOK {
			r.Violation("foreign-data:"+what, fmt.Sprintf("%s: after the error %v target %q holds %d rows of column %q", what, derr, t.Name, n, cols[j].Name), cs)
			continue
		}
		if derr == nil && t.T != nil && specified && !expectErr && !strings.HasPrefix(t.Col.Kind(), "typed:ColEnum(") {
			got := make([]ref.Val, 0, n)
			if p := core.Recover(func() {
				for i := 0; i < n; i++ {
					got = append(got, t.Col.Get(i))
				}
			}); p != "" {
				r.Violation("row-panic:"+what, p, cs)
				continue
			}
			if d := diffVals(cols[j].Vals, got); d != "" && sameWire(cols[j].T, t.T) {
				r.Violation("wrong-values:"+what, fmt.Sprintf("%s: target %d (%s) after decoding column %q (%s): %s", what, j, t.TS, cols[j].Name, cols[j].TS, d), cs)
			}
		}
	}
	return derr == nil
}

// sameWire: the value model of both types is the same wire bytes (so values can be compared).
func sameWire(a, b *ref.Type) bool {
	if a.Base == b.Base || (a.Width() > 0 && a.Width() == b.Width()) {
		if len(a.Args) != len(b.Args) {
			return false
		}
		for i := range a.Args {
			if !sameWire(a.Args[i], b.Args[i]) {
				return false
			}
		}
		return true
	}
	return false
}

func c18(r *core.Run) {
	pool := c18Pool()
	var ci int64
	mkTarget := func(e val.Entry, name string) c18Target {
		t, _ := ref.ParseType(e.Type)
		return c18Target{Name: name, TS: e.Type, T: t, Col: e.New()}
	}
	mkCol := func(e val.Entry, name string) c18Col {
		t, _ := ref.ParseType(e.Type)
		return c18Col{Name: name, TS: e.Type, T: t}
	}
	r.Note(fmt.Sprintf("pool of %d types", len(pool)))
	// ---- single-column type swap: block type i vs target type j ----
	stride := r.Pick(7, 1)
	for i := range pool {
		for j := range pool {
			ci++
			if !r.Take(ci) {
				continue
			}
			if stride > 1 && i != j && (i*31+j*17+int(r.Seed))%stride != 0 {
				continue
			}
			rng := r.Rand(ci, "swap")
			rows := []int{0, 1, 3, 8}[rng.Intn(4)]
			cols := []c18Col{mkCol(pool[i], "a"), mkCol(pool[(i+5)%len(pool)], "b")}
			data := c18Block(rng, cols, rows)
			targets := []c18Target{mkTarget(pool[j], "a"), mkTarget(pool[(i+5)%len(pool)], "b")}
			cs := map[string]any{"block": []string{cols[0].TS, cols[1].TS}, "targets": []string{targets[0].TS, targets[1].TS}, "rows": rows, "target_kinds": []string{targets[0].Col.Kind()}}
			r.Eval()
			r.NonTrivial("swap", pool[i].Type, pool[j].Type, pool[j].Kind, rows)
			c18Check(r, "type-swap", cols, rows, data, targets, cs)
			if i == j && i%20 == 0 {
				r.Sample(cs)
			}
		}
	}
	// ---- composites that differ in one inner position only (boxed targets): Map / Tuple / Array
	// of Map behind plain and parameterised first elements ----
	{
		keys := []string{"String", "LowCardinality(String)", "DateTime64(3)", "Enum8('a' = 1, 'b' = 2)", "Decimal(9, 2)", "FixedString(4)", "Nullable(Int32)"}
		vals := []string{"Int64", "UInt64", "String", "Array(String)", "Nullable(Int64)", "Float64"}
		var fam [][]string
		for _, k := range keys {
			var m, t, am []string
			for _, v := range vals {
				m = append(m, "Map("+k+", "+v+")")
				t = append(t, "Tuple("+k+", "+v+")")
				am = append(am, "Array(Map("+k+", "+v+"))")
			}
			fam = append(fam, m, t, am)
		}
		boxed := func(ts string) (val.Entry, bool) {
			t, err := ref.ParseType(ts)
			if err != nil {
				return val.Entry{}, false
			}
			if _, err := val.Build(t, rand.New(rand.NewSource(1)).Intn); err != nil {
				return val.Entry{}, false
			}
			return val.Entry{Type: ts, Kind: "boxed", New: func() val.LibCol { c, _ := val.Build(t, rand.New(rand.NewSource(1)).Intn); return c }}, true
		}
		for fi, f := range fam {
			for i := range f {
				for j := range f {
					ci++
					if !r.Take(ci) {
						continue
					}
					ei, ok1 := boxed(f[i])
					ej, ok2 := boxed(f[j])
					if !ok1 || !ok2 {
						r.Count("inner_position_pairs_skipped", 1)
						continue
					}
					rng := r.Rand(ci, "inner")
					rows := []int{1, 3}[rng.Intn(2)]
					cols := []c18Col{mkCol(ei, "a"), mkCol(pool[(fi+5)%len(pool)], "b")}
					data := c18Block(rng, cols, rows)
					targets := []c18Target{mkTarget(ej, "a"), mkTarget(pool[(fi+5)%len(pool)], "b")}
					cs := map[string]any{"block": []string{cols[0].TS, cols[1].TS}, "targets": []string{targets[0].TS, targets[1].TS}, "rows": rows, "target_kinds": []string{targets[0].Col.Kind()}}
					r.Eval()
					r.NonTrivial("inner", f[i], f[j], rows)
					c18Check(r, "inner-position-swap", cols, rows, data, targets, cs)
				}
			}
		}
	}
	// ---- every ordered pair of the enum-related pool types (raw ColEnum8 / ColEnum16, the inferable
	// ColEnum at both widths, compositions of them, and the underlying integers Int8 / Int16): the
	// width of an enum is part of its type, Enum8 data must never land in an Enum16 target or back ----
	{
		var ens []val.Entry
		for _, e := range pool {
			if strings.Contains(e.Type, "Enum") || e.Type == "Int8" || e.Type == "Int16" {
				ens = append(ens, e)
			}
		}
		for i := range ens {
			for j := range ens {
				ci++
				if !r.Take(ci) {
					continue
				}
				rng := r.Rand(ci, "enum")
				rows := []int{1, 3}[rng.Intn(2)]
				// three layouts: the pair first (a wrong width derails the column after it), last and
				// alone (a narrower target leaves bytes unread and nothing after it notices)
				for layout := 0; layout < 3; layout++ {
					var cols []c18Col
					var targets []c18Target
					switch layout {
					case 0:
						cols = []c18Col{mkCol(ens[i], "a"), mkCol(pool[(i+7)%len(pool)], "b")}
						targets = []c18Target{mkTarget(ens[j], "a"), mkTarget(pool[(i+7)%len(pool)], "b")}
					case 1:
						cols = []c18Col{mkCol(pool[(i+7)%len(pool)], "b"), mkCol(ens[i], "a")}
						targets = []c18Target{mkTarget(pool[(i+7)%len(pool)], "b"), mkTarget(ens[j], "a")}
					default:
						cols = []c18Col{mkCol(ens[i], "a")}
						targets = []c18Target{mkTarget(ens[j], "a")}
					}
					data := c18Block(rng, cols, rows)
					var bts, tts, kinds []string
					for k := range cols {
						bts, tts, kinds = append(bts, cols[k].TS), append(tts, targets[k].TS), append(kinds, targets[k].Col.Kind())
					}
					cs := map[string]any{"block": bts, "targets": tts, "rows": rows, "target_kinds": kinds, "layout": layout}
					r.Eval()
					r.NonTrivial("enum-pair", ens[i].Type, ens[i].Kind, ens[j].Type, ens[j].Kind, rows, layout)
					r.Count("enum_pairs", 1)
					c18Check(r, "enum-pair", cols, rows, data, targets, cs)
				}
			}
		}
	}
	// ---- every ordered pair of the decimal spellings / storage classes (incl. the precisions at
	// which the storage width changes: 9|10, 18|19, 38|39) ----
	{
		var decs []val.Entry
		for _, e := range pool {
			if e.Leaf && strings.HasPrefix(e.Type, "Decimal") {
				decs = append(decs, e)
			}
		}
		for i := range decs {
			for j := range decs {
				ci++
				if !r.Take(ci) {
					continue
				}
				rng := r.Rand(ci, "dec")
				rows := []int{1, 3}[rng.Intn(2)]
				cols := []c18Col{mkCol(decs[i], "a"), mkCol(pool[(i+5)%len(pool)], "b")}
				data := c18Block(rng, cols, rows)
				targets := []c18Target{mkTarget(decs[j], "a"), mkTarget(pool[(i+5)%len(pool)], "b")}
				cs := map[string]any{"block": []string{cols[0].TS, cols[1].TS}, "targets": []string{targets[0].TS, targets[1].TS}, "rows": rows}
				r.Eval()
				r.NonTrivial("decimal-pair", decs[i].Type, decs[j].Type, rows)
				c18Check(r, "decimal-pair", cols, rows, data, targets, cs)
			}
		}
	}
	// ---- the extreme "missing columns" case: a block that declares rows but no column at all ----
	for k := 0; k < 12; k++ {
		ci++
		if !r.Take(ci) {
			continue
		}
		rng := r.Rand(ci, "nocols")
		var w ref.W
		rev := []int{54460, 54453, 51902}[(k/3)%3]
		if rev >= ref.RevBlockInfo {
			ref.EncodeBlockInfo(&w, ref.BlockInfo{Bucket: -1})
		}
		w.UVarint(0)
		rows := 1 + rng.Intn(5)
		w.UVarint(uint64(rows))
		var target proto.Result
		tcol := new(proto.ColUInt32)
		for i := 0; i < 3; i++ {
			tcol.Append(uint32(i))
		}
		// (an inferring target, Results.Auto(), has no bound columns to compare with: not judged)
		switch k % 3 {
		case 0:
			target = proto.Results{{Name: "a", Data: tcol}}
		case 1:
			target = proto.ResultColumn{Name: "a", Data: tcol}
		default:
			target = nil
		}
		var derr error
		var blk proto.Block
		r.Eval()
		r.NonTrivial("no-columns", k)
		cs := map[string]any{"block": fmt.Sprintf("0 columns, %d rows, rev %d", rows, rev), "target": []string{"Results", "ResultColumn", "nil"}[k%3]}
		if p := core.Recover(func() { derr = blk.DecodeBlock(proto.NewReader(bytes.NewReader(w.B)), rev, target) }); p != "" {
			r.Violation("panic:no-columns-block", p, cs)
		} else if derr == nil {
			r.Violation("incompatible-accepted:rows-without-columns", fmt.Sprintf("a block of %d rows and 0 columns was accepted (target %s)", rows, cs["target"]), cs)
		}
	}
	// ---- structural mutations over random schemas ----
	n := r.Pick(3000, 60000)
	for k := 0; k < n; k++ {
		ci++
		if !r.Take(ci) {
			continue
		}
		rng := r.Rand(ci, "mut")
		nc := 1 + rng.Intn(4)
		var cols []c18Col
		var es []val.Entry
		for i := 0; i < nc; i++ {
			e := pool[rng.Intn(len(pool))]
			es = append(es, e)
			name := fmt.Sprintf("c%d", i)
			if (int(ci)+i)%3 == 0 {
				name = "t." + name // qualified names as JOINs produce them
			}
			cols = append(cols, mkCol(e, name))
		}
		rows := []int{0, 1, 2, 5}[rng.Intn(4)]
		data := c18Block(rng, cols, rows)
		var targets []c18Target
		for i, e := range es {
			targets = append(targets, mkTarget(e, cols[i].Name))
		}
		mut := []string{"equal", "permuted", "renamed", "extra-target", "missing-target", "blank-names", "no-targets", "single-result-column"}[rng.Intn(8)]
		switch mut {
		case "permuted":
			if nc < 2 {
				mut = "equal"
				break
			}
			i, j := rng.Intn(nc), rng.Intn(nc)
			if i == j {
				j = (i + 1) % nc
			}
			targets[i], targets[j] = targets[j], targets[i]
		case "renamed":
			i := rng.Intn(nc)
			targets[i].Name = c18NearMiss(targets[i].Name, int(ci))
		case "extra-target":
			targets = append(targets, mkTarget(pool[rng.Intn(len(pool))], "extra"))
		case "missing-target":
			targets = targets[:nc-1]
		case "blank-names":
			for i := range targets {
				if rng.Intn(2) == 0 {
					targets[i].Name = ""
				}
			}
		case "no-targets":
			targets = nil
		}
		cs := map[string]any{"mutation": mut, "block": colDesc(cols), "targets": targetDesc(targets), "rows": rows}
		r.Eval()
		if nc >= 2 {
			r.NonTrivial(mut, fmt.Sprint(colDesc(cols)), fmt.Sprint(targetDesc(targets)), rows)
		}
		r.SetAdd("mutations", mut)
		if mut == "no-targets" {
			var blk proto.Block
			var derr error
			if p := core.Recover(func() { derr = blk.DecodeBlock(proto.NewReader(bytes.NewReader(data)), 54460, proto.Results{}) }); p != "" {
				r.Violation("decode-panic:no-targets", p, cs)
			} else if rows > 0 && derr == nil {
				r.Violation("incompatible-accepted:no-targets", "a block with rows was decoded into an empty target list", cs)
			} else if rows == 0 && derr != nil {
				r.Violation("compatible-rejected:header-without-targets", fmt.Sprintf("zero-row header block without targets rejected: %v", derr), cs)
			}
			continue
		}
		if mut == "single-result-column" {
			cols1 := cols[:1]
			d1 := c18Block(rng, cols1, rows)
			tg := mkTarget(es[0], cols[0].Name)
			var derr error
			rc := proto.ResultColumn{Name: tg.Name, Data: tg.Col.Col()}
			if p := core.Recover(func() {
				var blk proto.Block
				derr = blk.DecodeBlock(proto.NewReader(bytes.NewReader(d1)), 54460, rc)
			}); p != "" || derr != nil {
				r.Violation("compatible-rejected:single-result-column", fmt.Sprintf("%v %s", derr, p), cs)
			} else if d := diffVals(cols1[0].Vals, readAll(tg.Col)); d != "" {
				r.Violation("wrong-values:single-result-column", d, cs)
			}
			continue
		}
		var bound proto.Results
		ok := c18Check(r, mut, cols, rows, data, targets, cs, &bound)
		// sequences: follow-up blocks against the same targets
		if ok && rng.Intn(2) == 0 {
			for step := 0; step < 1+rng.Intn(3); step++ {
				cols2 := make([]c18Col, len(cols))
				copy(cols2, cols)
				change := []string{"same", "renamed-column", "swapped-columns", "retyped-column"}[rng.Intn(4)]
				switch change {
				case "renamed-column":
					i := rng.Intn(nc)
					cols2[i].Name = c18NearMiss(cols2[i].Name, int(ci)+step)
				case "swapped-columns":
					if nc >= 2 {
						cols2[0], cols2[1] = cols2[1], cols2[0]
					}
				case "retyped-column":
					i := rng.Intn(nc)
					cols2[i] = mkCol(pool[rng.Intn(len(pool))], cols2[i].Name)
				}
				rows2 := []int{0, 1, 4}[rng.Intn(3)]
				data2 := c18Block(rng, cols2, rows2)
				// blank names were filled from the first block: they are enforced now
				tg2 := make([]c18Target, len(targets))
				copy(tg2, targets)
				for i := range tg2 {
					if tg2[i].Name == "" && i < len(cols) {
						tg2[i].Name = cols[i].Name
					}
				}
				cs2 := map[string]any{"mutation": mut, "followup": change, "first_block": colDesc(cols), "second_block": colDesc(cols2), "targets": targetDesc(targets)}
				r.Eval()
				r.SetAdd("followups", change)
				if !c18Check(r, "sequence:"+change, cols2, rows2, data2, tg2, cs2, &bound) {
					break
				}
			}
		}
	}
	// ---- inferable targets adopt the server's parameters ----
	for k := 0; k < r.Pick(600, 10000); k++ {
		ci++
		if !r.Take(ci) {
			continue
		}
		rng := r.Rand(ci, "infer")
		c18Inferable(r, rng)
	}
}

func colDesc(cols []c18Col) []string {
	var out []string
	for _, c := range cols {
		out = append(out, c.Name+" "+c.TS)
	}
	return out
}

func targetDesc(ts []c18Target) []string {
	var out []string
	for _, t := range ts {
		out = append(out, t.Name+" "+t.TS)
	}
	return out
}

func readAll(c val.LibCol) []ref.Val {
	var out []ref.Val
	for i := 0; i < c.Col().Rows(); i++ {
		out = append(out, c.Get(i))
	}
	return out
}

// c18Inferable: targets created without parameters must adopt those of the block's type.
func c18Inferable(r *core.Run, rng *rand.Rand) {
	zone := c19Zones[rng.Intn(len(c19Zones))]
	p1, p2 := rng.Intn(10), rng.Intn(10)
	enumA := "Enum8('a' = 1, 'b' = 2, 'c' = 3)"
	enumB := "Enum8('x' = 1, 'y' = 2, 'z' = 3)"
	enumC := `Enum8('tab\tsep' = 1, 'C:\\dir' = 2, 'it\'s' = 3, 'Doe, John' = 4, 'k = v,  w' = 5)`
	type tc struct {
		name   string
		types  []string // successive block types
		target func() proto.ColResult
	}
	cases := []tc{
		{"DateTime64", []string{fmt.Sprintf("DateTime64(%d)", p1), fmt.Sprintf("DateTime64(%d, '%s')", p2, zone)}, func() proto.ColResult { return new(proto.ColDateTime64) }},
		{"Array(DateTime64)", []string{fmt.Sprintf("Array(DateTime64(%d))", p1), fmt.Sprintf("Array(DateTime64(%d))", p2)}, func() proto.ColResult { return new(proto.ColDateTime64).Array() }},
		{"Nullable(DateTime64)", []string{fmt.Sprintf("Nullable(DateTime64(%d))", p1), fmt.Sprintf("Nullable(DateTime64(%d))", p2)}, func() proto.ColResult { return new(proto.ColDateTime64).Nullable() }},
		{"Map(String,DateTime64)", []string{fmt.Sprintf("Map(String, DateTime64(%d))", p1), fmt.Sprintf("Map(String, DateTime64(%d))", p2)}, func() proto.ColResult {
			return proto.NewMap[string, time.Time](new(proto.ColStr), new(proto.ColDateTime64))
		}},
		{"Tuple(DateTime64,Enum)", []string{fmt.Sprintf("Tuple(DateTime64(%d), %s)", p1, enumA), fmt.Sprintf("Tuple(DateTime64(%d), %s)", p2, enumB)}, func() proto.ColResult {
			return proto.ColTuple{new(proto.ColDateTime64), new(proto.ColEnum)}
		}},
		{"Enum", []string{enumA, enumB}, func() proto.ColResult { return new(proto.ColEnum) }},
		{"Enum(escaped names)", []string{enumC, enumA, enumC}, func() proto.ColResult { return new(proto.ColEnum) }},
		{"Array(Enum escaped names)", []string{"Array(" + enumC + ")", "Array(" + enumB + ")"}, func() proto.ColResult { return proto.NewArray[string](new(proto.ColEnum)) }},
		{"AutoResult(Enum escaped names)", []string{enumC, enumB}, func() proto.ColResult { return &proto.ColAuto{} }},
		{"Array(Enum)", []string{"Array(" + enumA + ")", "Array(" + enumB + ")"}, func() proto.ColResult { return proto.NewArray[string](new(proto.ColEnum)) }},
		{"DateTime", []string{"DateTime", fmt.Sprintf("DateTime('%s')", zone)}, func() proto.ColResult { return new(proto.ColDateTime) }},
		{"AutoResult", []string{fmt.Sprintf("DateTime64(%d)", p1), fmt.Sprintf("DateTime64(%d)", p2)}, func() proto.ColResult { return &proto.ColAuto{} }},
		{"AutoResult(Enum)", []string{enumA, enumB}, func() proto.ColResult { return &proto.ColAuto{} }},
		{"AutoResult(LowCardinality)", []string{"LowCardinality(String)", "LowCardinality(String)"}, func() proto.ColResult { return &proto.ColAuto{} }},
		{"AutoResult(Array(LowCardinality))", []string{"Array(LowCardinality(String))", "Array(LowCardinality(String))"}, func() proto.ColResult { return &proto.ColAuto{} }},
		{"AutoResult(Array)", []string{fmt.Sprintf("Array(DateTime64(%d))", p1), fmt.Sprintf("Array(DateTime64(%d))", p2)}, func() proto.ColResult { return &proto.ColAuto{} }},
	}
	// an AutoResult target that meets successive blocks whose types share only the outermost
	// base (Nullable(Int32) -> Nullable(UInt32), FixedString(8) -> FixedString(16), Array(String)
	// -> Array(Int32), Decimal(9, 2) -> Decimal(18, 2), ...): it must re-infer, never keep a column
	// of the previous width
	if groups := c18SameBaseGroups(); len(groups) > 0 {
		for k := 0; k < 6; k++ {
			g := groups[rng.Intn(len(groups))]
			n := 2 + rng.Intn(3)
			var ts []string
			for i := 0; i < n; i++ {
				ts = append(ts, g[rng.Intn(len(g))])
			}
			cases = append(cases, tc{"AutoResult(same base: " + c18Base(ts[0]) + ")", ts, func() proto.ColResult { return &proto.ColAuto{} }})
		}
	}
	c := cases[rng.Intn(len(cases))]
	target := c.target()
	res := proto.Results{{Name: "", Data: target}}
	for step, ts := range c.types {
		t, err := ref.ParseType(ts)
		if err != nil {
			r.Violation("harness:type", ts+": "+err.Error(), ts)
			return
		}
		rows := 1 + rng.Intn(5)
		cols := []c18Col{{Name: "v", TS: ts, T: t}}
		data := c18Block(rng, cols, rows)
		cs := map[string]any{"target": c.name, "block_types": c.types, "step": step}
		r.Eval()
		r.NonTrivial("inferable", c.name, ts, step)
		r.SetAdd("inferable_targets", c.name)
		var derr error
		if p := core.Recover(func() {
			var blk proto.Block
			derr = blk.DecodeBlock(proto.NewReader(bytes.NewReader(data)), 54460, res)
		}); p != "" {
			r.Violation("inferable-panic:"+c.name, p, cs)
			return
		}
		if derr != nil {
			r.Violation("inferable-rejected:"+c.name, fmt.Sprintf("target %s, block %d of type %q: %v", c.name, step, ts, derr), cs)
			return
		}
		if res[0].Name != "v" {
			r.Violation("blank-name-not-filled", fmt.Sprintf("target name is %q after the first block", res[0].Name), cs)
		}
		got, err := val.ReadCol(target, t)
		if err != nil {
			if strings.Contains(err.Error(), "unordered") {
				continue
			}
			r.Violation("inferable-not-adopted:"+c.name, fmt.Sprintf("target %s after block %d of type %q: %v", c.name, step, ts, err), cs)
			return
		}
		if d := diffVals(cols[0].Vals, got); d != "" {
			cls := "first-block"
			if step > 0 {
				cls = "changed-parameters"
			}
			r.Violation("inferable-not-adopted:"+c.name+":"+cls, fmt.Sprintf("target %s after block %d of type %q (previous %v): values read with stale parameters: %s", c.name, step, ts, c.types[:step], d), cs)
			return
		}
	}
}

func c18Base(ts string) string {
	if i := strings.IndexByte(ts, '('); i >= 0 {
		return ts[:i]
	}
	return ts
}

var (
	c18GroupsOnce sync.Once
	c18Groups     [][]string
)

// c18SameBaseGroups: the inferable types of the pool, grouped by outermost base (groups of >= 2).
func c18SameBaseGroups() [][]string {
	c18GroupsOnce.Do(func() {
		byBase := map[string][]string{}
		seen := map[string]bool{}
		add := func(ts string) {
			if seen[ts] {
				return
			}
			seen[ts] = true
			if _, err := ref.ParseType(ts); err != nil {
				return
			}
			ok := false
			_ = core.Recover(func() { ok = new(proto.ColAuto).Infer(proto.ColumnType(ts)) == nil })
			if ok {
				byBase[c18Base(ts)] = append(byBase[c18Base(ts)], ts)
			}
		}
		for _, e := range c18Pool() {
			add(e.Type)
		}
		for _, ts := range []string{"Nullable(Int32)", "Nullable(UInt32)", "Nullable(Int64)", "Nullable(String)", "FixedString(8)", "FixedString(16)", "FixedString(3)",
			"Decimal(9, 2)", "Decimal(18, 2)", "Decimal(38, 4)", "Decimal(76, 0)", "Array(String)", "Array(Int32)", "Array(UInt8)", "Array(Nullable(String))", "Array(Array(Int64))",
			"Map(String, String)", "Map(String, UInt64)", "Map(Int32, String)", "Tuple(String, Int64)", "Tuple(Int64, String)", "Tuple(UInt8, UInt8, UInt8)",
			"LowCardinality(String)", "LowCardinality(FixedString(4))", "DateTime64(3)", "DateTime64(9, 'UTC')", "Decimal32(2)", "Decimal32(5)", "Decimal64(2)", "Decimal64(9)"} {
			add(ts)
		}
		var bases []string
		for b, l := range byBase {
			if len(l) >= 2 {
				bases = append(bases, b)
			}
		}
		sort.Strings(bases)
		for _, b := range bases {
			c18Groups = append(c18Groups, byBase[b])
		}
	})
	return c18Groups
}

func readAllSafe(c val.LibCol) (out []ref.Val) {
	_ = core.Recover(func() { out = readAll(c) })
	return out
}

// c18NearMiss returns a name that differs from n: unrelated, or one a lenient comparison might
// confuse with it (qualified / unqualified, prefix, suffix, case, surrounding space).
func c18NearMiss(n string, v int) string {
	base := n
	if i := strings.LastIndexByte(n, '.'); i >= 0 {
		base = n[i+1:]
	}
	vs := []string{"other", "u." + n, n + ".x", strings.ToUpper(n), n + " ", " " + n, n[:len(n)-1], n[1:], "zz"}
	if base != n {
		vs = append(vs, base, n[:len(n)-len(base)-1], "u."+base)
	}
	out := vs[((v%len(vs))+len(vs))%len(vs)]
	if out == n || out == "" {
		return "other"
	}
	return out
}
