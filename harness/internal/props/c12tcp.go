package props

import (
	"context"
	"fmt"
	"net"
	"sync"
	"time"

	"github.com/ClickHouse/ch-go"
	"github.com/ClickHouse/ch-go/chpool"

	"verif/internal/core"
	"verif/internal/ref"
	"verif/internal/simnet"
)

// c12ServeTCP answers native-protocol clients on a loopback listener with the scripted server
// (one server state machine per accepted connection).
func c12ServeTCP(ln net.Listener, rev int) {
	for {
		nc, err := ln.Accept()
		if err != nil {
			return
		}
		go func() {
			defer nc.Close()
			srv := simnet.NewScriptServer(&simnet.Script{Rev: rev, OnQuery: func(*ref.Query) []simnet.Item {
				return []simnet.Item{{Data: simnet.PacketEnd()}}
			}})
			buf := make([]byte, 4096)
			for {
				n, err := nc.Read(buf)
				if n > 0 {
					for _, it := range srv.Feed(buf[:n]) {
						if it.EOF || it.Reset {
							return
						}
						if _, werr := nc.Write(it.Data); werr != nil {
							return
						}
					}
				}
				if err != nil {
					return
				}
			}
		}()
	}
}

// c12SharedOptions: many goroutines share one pool (and one Options value with the caller's own
// *net.Dialer and Settings slice) whose connections are dialled over loopback TCP by the standard
// dialer; a second group dials clients directly from the same Options value. The caller-owned
// objects are only read by the harness. Oracle: the race detector.
func c12SharedOptions(r *core.Run, ci int64) {
	rng := r.Rand(ci, "c12tcp")
	ln, err := net.Listen("tcp", "127.0.0.1:0")
	if err != nil {
		r.Inconclusive("loopback listener: " + err.Error())
		return
	}
	defer ln.Close()
	go c12ServeTCP(ln, 54460)
	dialer := &net.Dialer{}
	opt := ch.Options{
		Address:  ln.Addr().String(),
		Dialer:   dialer,
		Settings: []ch.Setting{{Key: "max_threads", Value: "2", Important: true}},
	}
	if rng.Intn(2) == 0 {
		opt.DialTimeout = time.Duration(1+rng.Intn(5)) * time.Second
	}
	users := 2 + rng.Intn(10)
	ctx, cancel := context.WithTimeout(context.Background(), 20*time.Second)
	defer cancel()
	pool, err := chpool.New(ctx, chpool.Options{ClientOptions: opt, MaxConns: int32(users), MinConns: int32(rng.Intn(3))})
	if err != nil {
		r.Inconclusive("pool over loopback: " + err.Error())
		return
	}
	var wg sync.WaitGroup
	var mu sync.Mutex
	okPings, okDirect := 0, 0
	start := make(chan struct{})
	for u := 0; u < users; u++ {
		wg.Add(1)
		go func(u int) {
			defer wg.Done()
			<-start
			if u%3 == 2 {
				c, err := ch.Dial(ctx, opt)
				if err != nil {
					return
				}
				if c.Ping(ctx) == nil {
					mu.Lock()
					okDirect++
					mu.Unlock()
				}
				c.Close()
				return
			}
			for k := 0; k < 3; k++ {
				cl, err := pool.Acquire(ctx)
				if err != nil {
					return
				}
				if cl.Ping(ctx) == nil && cl.Do(ctx, ch.Query{Body: "SELECT 1"}) == nil {
					mu.Lock()
					okPings++
					mu.Unlock()
				}
				cl.Release()
			}
		}(u)
	}
	close(start)
	done := make(chan struct{})
	go func() { wg.Wait(); close(done) }()
	select {
	case <-done:
	case <-time.After(30 * time.Second):
		r.Inconclusive("loopback pool users did not finish")
		return
	}
	pool.Close()
	r.Eval()
	if okPings > 0 {
		r.NonTrivial(fmt.Sprintf("tcp-pool users=%d min=%v", users, opt.DialTimeout))
	}
	r.Count("tcp_pool_roundtrips", int64(okPings))
	r.Count("tcp_direct_dials", int64(okDirect))
	r.SetAdd("scenarios", "loopback-tcp-pool-shared-options")
	_ = dialer
}
