package props

import (
	"bytes"
	"fmt"
	"math/rand"
	"strings"
	"time"

	"github.com/ClickHouse/ch-go/proto"

	"verif/internal/core"
	"verif/internal/ref"
	"verif/internal/val"
)

func init() {
	Registry["C19"] = Spec{
		Fn:          c19,
		Level:       "exploration",
		Rule:        "(a) totality: ColAuto.Infer, ColumnType.Conflicts/Base/Elem/normalisation and every inferable column's Infer on malformed strings (unbalanced/empty parentheses, missing or non-numeric parameters, unknown bases, nesting depth up to 10000, arbitrary bytes, splices of valid types; plus, enumerated, every parameter string of length <= 2 over quote, double quote, parentheses, comma, space, =, backslash, 0, a, -, 3 and of length <= 3 over quotes / backslash / parentheses, for 18 parametric bases, bare and inside 6 wrappers) - no panic, bounded time; (b) soundness: grammar-generated well-formed types (every leaf, precisions 0..9, time zones, enum literals with spaces/escaped quotes/=/,/negative codes, decimals 1..76, FixedString sizes, nesting to depth 4, spacing variants): Infer errors or yields a column whose Type() does not conflict and which decodes a reference-encoded block of that type to the reference values; (c) relation: reflexive, symmetric over all ordered pairs of a type pool, documented equivalences compatible, different base types conflicting. Non-trivial = parameterised or nested type / malformed with a valid prefix; distinct = type strings and pairs",
		Assumptions: []string{"reference compatibility relation written from the property statement and the repository's documented table (proto/column_test.go)", "system tz database present"},
		MinDistinct: 500,
	}
}

var c19Zones = []string{"UTC", "Europe/Moscow", "Asia/Tokyo", "America/New_York", "Etc/GMT+5", "Asia/Kolkata"}
var c19Plain = []string{"Int8", "Int16", "Int32", "Int64", "Int128", "Int256", "UInt8", "UInt16", "UInt32", "UInt64", "UInt128", "UInt256",
	"Float32", "Float64", "String", "Bool", "UUID", "IPv4", "IPv6", "Date", "Date32", "DateTime", "Nothing",
	"IntervalSecond", "IntervalMinute", "IntervalHour", "IntervalDay", "IntervalWeek", "IntervalMonth", "IntervalQuarter", "IntervalYear"}

func c19EnumName(rng *rand.Rand) (wire, logical string) {
	switch rng.Intn(18) {
	case 14:
		return "Doe, John", "Doe, John"
	case 15:
		return "a ,b", "a ,b"
	case 16:
		return " ,  ", " ,  "
	case 17:
		return "x = 1, y", "x = 1, y"
	case 9:
		return `tab\tsep`, "tab\tsep"
	case 10:
		return `C:\\dir`, `C:\dir`
	case 11:
		return `new\nline end`, "new\nline end"
	case 12:
		return `q\'q\\z`, `q'q\z`
	case 13:
		return `cr\rlf\n`, "cr\rlf\n"
	case 0:
		return "a b", "a b"
	case 1:
		return `it\'s`, "it's"
	case 2:
		return "k=v", "k=v"
	case 3:
		return "x,y", "x,y"
	case 4:
		return "", ""
	case 5:
		return "ünï", "ünï"
	}
	n := fmt.Sprintf("v%d", rng.Intn(1000))
	return n, n
}

// genWellFormed returns a well-formed type string.
func genWellFormed(rng *rand.Rand, depth int) string {
	sep := ", "
	if rng.Intn(3) == 0 {
		sep = ","
	}
	leaf := func() string {
		switch rng.Intn(9) {
		case 0:
			return fmt.Sprintf("FixedString(%d)", []int{1, 2, 8, 16, 17, 32, 64, 128, 256, 512, 1000}[rng.Intn(11)])
		case 1:
			return fmt.Sprintf("DateTime('%s')", c19Zones[rng.Intn(len(c19Zones))])
		case 2:
			if rng.Intn(2) == 0 {
				return fmt.Sprintf("DateTime64(%d)", rng.Intn(10))
			}
			return fmt.Sprintf("DateTime64(%d%s'%s')", rng.Intn(10), sep, c19Zones[rng.Intn(len(c19Zones))])
		case 3:
			p := 1 + rng.Intn(76)
			return fmt.Sprintf("Decimal(%d%s%d)", p, sep, rng.Intn(p+1))
		case 4:
			w := []string{"32", "64", "128", "256"}[rng.Intn(4)]
			return fmt.Sprintf("Decimal%s(%d)", w, rng.Intn(9))
		case 5:
			base, lo, hi := "Enum8", -128, 127
			if rng.Intn(2) == 0 {
				base, lo, hi = "Enum16", -32768, 32767
			}
			n := 1 + rng.Intn(4)
			seen := map[int]bool{}
			seenN := map[string]bool{}
			var items []string
			for len(items) < n {
				v := lo + rng.Intn(hi-lo+1)
				if rng.Intn(3) != 0 {
					v = rng.Intn(20) - 5
				}
				w, _ := c19EnumName(rng)
				if seen[v] || seenN[w] {
					continue
				}
				seen[v], seenN[w] = true, true
				eq := " = "
				if rng.Intn(4) == 0 {
					eq = "="
				}
				items = append(items, fmt.Sprintf("'%s'%s%d", w, eq, v))
			}
			return base + "(" + strings.Join(items, sep) + ")"
		}
		return c19Plain[rng.Intn(len(c19Plain))]
	}
	if depth <= 0 || rng.Intn(3) == 0 {
		return leaf()
	}
	switch rng.Intn(6) {
	case 0, 1:
		return "Array(" + genWellFormed(rng, depth-1) + ")"
	case 2:
		return "Nullable(" + leaf() + ")"
	case 3:
		l := leaf()
		if rng.Intn(4) == 0 {
			l = "Nullable(" + l + ")"
		}
		return "LowCardinality(" + l + ")"
	case 4:
		k := []string{"String", "Int32", "UInt64", "UUID", "Date", "FixedString(4)", "LowCardinality(String)"}[rng.Intn(7)]
		return "Map(" + k + sep + genWellFormed(rng, depth-1) + ")"
	default:
		n := 1 + rng.Intn(3)
		var parts []string
		named := rng.Intn(3) == 0
		for i := 0; i < n; i++ {
			p := genWellFormed(rng, depth-1)
			if named {
				p = fmt.Sprintf("n%d %s", i, p)
			}
			parts = append(parts, p)
		}
		return "Tuple(" + strings.Join(parts, sep) + ")"
	}
}

func genMalformed(rng *rand.Rand) string {
	good := genWellFormed(rng, 2)
	switch rng.Intn(16) {
	case 0:
		return strings.Repeat("Array(", 1+rng.Intn(5)) + good // unbalanced
	case 1:
		return good + strings.Repeat(")", 1+rng.Intn(3))
	case 2:
		return "Array()"
	case 3:
		return []string{"DateTime64()", "DateTime64(x)", "DateTime64(-1)", "DateTime64(10)", "DateTime64(999999999999999999999)", "DateTime64(3, )", "DateTime64(,'UTC')", "DateTime64(3,'Nowhere/Zone')"}[rng.Intn(8)]
	case 4:
		return []string{"Decimal", "Decimal()", "Decimal(x, 2)", "Decimal(0, 0)", "Decimal(77, 2)", "Decimal(,)", "Decimal(99999999999999999999, 1)", "Decimal(-5,1)"}[rng.Intn(8)]
	case 5:
		return []string{"Enum8", "Enum8()", "Enum8('a')", "Enum8('a' = )", "Enum8('a' = x)", "Enum8(= 1)", "Enum16('a' = 1,)", "Enum8('a' = 99999999999999999999)", "Enum8(((('a' = 1))))", "Enum8('a' = 1, 'a' = 2)"}[rng.Intn(10)]
	case 6:
		return []string{"Foo", "Foo(Bar)", "array(Int8)", "Int8(3)", "String(", ")(", "(", ")", "()", " ", "Nullable", "LowCardinality()", "Map", "Map()", "Map(String)", "Map(String,)", "Map(,String)", "Map(String, Int8, Int8)", "Tuple()", "Tuple(,)", "FixedString()", "FixedString(x)", "FixedString(-1)", "FixedString(0)", "DateTime('')", "DateTime('Bad/Zone')", "DateTime(UTC)", "Interval", "IntervalFortnight", "Nested(a Int8)"}[rng.Intn(30)]
	case 7:
		d := []int{100, 1000, 10000}[rng.Intn(3)]
		w := []string{"Array(", "Nullable(", "LowCardinality(", "Tuple(", "Map(String, "}[rng.Intn(5)]
		s := strings.Repeat(w, d) + "Int8"
		if rng.Intn(2) == 0 {
			s += strings.Repeat(")", d)
		}
		return s
	case 8:
		b := make([]byte, rng.Intn(60))
		rng.Read(b)
		return string(b)
	case 9: // splice of two valid types
		o := genWellFormed(rng, 2)
		i, j := rng.Intn(len(good)+1), rng.Intn(len(o)+1)
		return good[:i] + o[j:]
	case 10: // drop one byte
		i := rng.Intn(len(good))
		return good[:i] + good[i+1:]
	case 11: // flip one byte
		b := []byte(good)
		b[rng.Intn(len(b))] ^= byte(1 << rng.Intn(8))
		return string(b)
	case 12:
		return strings.Replace(good, "(", "((", 1)
	case 13:
		return strings.Replace(good, ",", ",,", 1)
	case 14:
		return strings.ToLower(good)
	}
	return good + " " + good
}

// refConflict: reference compatibility relation. ok=false: the statement does not rule on it.
func refConflict(a, b *ref.Type) (conflict bool, ok bool) { return refConflictEnum(a, b, false) }

// refConflictEnum: with enumAdopts the target side holds inferable ColEnum columns, which take
// over whatever enum definition (8 or 16 bit) the block declares.
func refConflictEnum(a, b *ref.Type, enumAdopts bool) (conflict bool, ok bool) {
	an, bn := normType(a), normType(b)
	if an == bn {
		return false, true
	}
	if enumAdopts && strings.HasPrefix(a.Base, "Enum") && strings.HasPrefix(b.Base, "Enum") {
		return false, true
	}
	isEnum := func(t *ref.Type, w int) bool { return (t.Base == "Enum8" && w == 8) || (t.Base == "Enum16" && w == 16) }
	if (isEnum(a, 8) && b.Raw == "Int8") || (isEnum(b, 8) && a.Raw == "Int8") || (isEnum(a, 16) && b.Raw == "Int16") || (isEnum(b, 16) && a.Raw == "Int16") {
		return false, true
	}
	decClass := func(t *ref.Type) string {
		switch t.Base {
		case "Decimal":
			switch {
			case t.N < 10:
				return "Decimal32"
			case t.N < 19:
				return "Decimal64"
			case t.N < 39:
				return "Decimal128"
			default:
				return "Decimal256"
			}
		case "Decimal32", "Decimal64", "Decimal128", "Decimal256":
			return t.Base
		}
		return ""
	}
	if da, db := decClass(a), decClass(b); da != "" || db != "" {
		if da == "" || db == "" {
			return true, true
		}
		if da != db {
			return true, true
		}
		// same storage class; the documented alias is Decimal(P,S) <-> DecimalN (bare)
		if (a.Base == "Decimal") != (b.Base == "Decimal") && strings.IndexByte(a.Raw+b.Raw, '(') >= 0 {
			bare := a
			if a.Base == "Decimal" {
				bare = b
			}
			if !strings.Contains(bare.Raw, "(") {
				return false, true
			}
		}
		return false, false
	}
	if a.Base != b.Base {
		return true, true
	}
	switch a.Base {
	case "Array", "Nullable", "LowCardinality":
		return refConflictEnum(a.Args[0], b.Args[0], enumAdopts)
	case "Map", "Tuple":
		// element-wise: a certain conflict in any position makes the whole conflict; anything
		// else about same-base composites is left unspecified
		if len(a.Args) != len(b.Args) {
			return true, true
		}
		for i := range a.Args {
			if c, ok := refConflictEnum(a.Args[i], b.Args[i], enumAdopts); ok && c {
				return true, true
			}
		}
		return false, false
	case "DateTime":
		return false, true // time-zone parameters are compatible
	case "DateTime64":
		if a.N == b.N {
			return false, true
		}
		return false, false
	}
	return false, false // same base, different parameters: unspecified
}

func normType(t *ref.Type) string {
	switch t.Base {
	case "Array", "Nullable", "LowCardinality", "Map", "Tuple":
		return t.Canon()
	}
	// normalise spacing after commas outside quotes
	var sb strings.Builder
	inq := false
	s := t.Raw
	for i := 0; i < len(s); i++ {
		c := s[i]
		if inq {
			sb.WriteByte(c)
			if c == '\\' && i+1 < len(s) {
				i++
				sb.WriteByte(s[i])
			} else if c == '\'' {
				inq = false
			}
			continue
		}
		if c == '\'' {
			inq = true
		}
		if c == ' ' {
			continue
		}
		sb.WriteByte(c)
	}
	return sb.String()
}

func c19(r *core.Run) {
	var ci int64
	deadline := 20 * time.Second
	timed := func(key string, cs any, f func()) {
		start := time.Now()
		if p := core.Recover(f); p != "" {
			cls := "panic"
			if strings.Contains(p, "stack overflow") || strings.Contains(p, "stack exceeds") {
				cls = "stack-overflow"
			}
			r.Violation(key+":"+cls, p, cs)
		}
		if time.Since(start) > deadline {
			r.Inconclusive(fmt.Sprintf("%s took %s on %v", key, time.Since(start), cs))
		}
	}
	checkTotal := func(ci int64, rng *rand.Rand, s string) {
		if len(s) < 200 {
			r.CaseLog(fmt.Sprintf("%d %q", ci, s))
		} else {
			r.CaseLog(fmt.Sprintf("%d len=%d %q...", ci, len(s), s[:60]))
		}
		r.Eval()
		if strings.ContainsAny(s, "(,") {
			r.NonTrivial("malformed", s)
		}
		ct := proto.ColumnType(s)
		timed("ColAuto.Infer", s, func() {
			var a proto.ColAuto
			if err := a.Infer(ct); err == nil && a.Data != nil {
				_ = a.Data.Type()
				_ = a.Data.Rows()
			}
		})
		timed("ColumnType.Base/Elem", s, func() { _ = ct.Base(); _ = ct.Elem(); _ = ct.IsArray() })
		o := proto.ColumnType(genWellFormed(rng, 1))
		timed("ColumnType.Conflicts", s, func() {
			_ = ct.Conflicts(o)
			_ = o.Conflicts(ct)
			_ = ct.Conflicts(ct)
		})
		for name, mk := range map[string]func() proto.Inferable{
			"ColEnum.Infer":       func() proto.Inferable { return new(proto.ColEnum) },
			"ColDateTime.Infer":   func() proto.Inferable { return new(proto.ColDateTime) },
			"ColDateTime64.Infer": func() proto.Inferable { return new(proto.ColDateTime64) },
			"ColInterval.Infer":   func() proto.Inferable { return new(proto.ColInterval) },
			"ColMap.Infer":        func() proto.Inferable { return proto.NewMap[string, string](new(proto.ColStr), new(proto.ColStr)) },
			"ColArr.Infer":        func() proto.Inferable { return proto.NewArray[string](new(proto.ColEnum)) },
			"ColTuple.Infer":      func() proto.Inferable { return proto.ColTuple{new(proto.ColDateTime64), new(proto.ColEnum)} },
			"ColNullable.Infer":   func() proto.Inferable { return proto.NewColNullable[time.Time](new(proto.ColDateTime64)) },
		} {
			timed(name, s, func() { _ = mk().Infer(ct) })
		}
	}
	// (a) totality on malformed strings
	n := r.Pick(30000, 600000)
	for k := 0; k < n; k++ {
		ci++
		if !r.Take(ci) {
			continue
		}
		rng := r.Rand(ci, "bad")
		s := genMalformed(rng)
		checkTotal(ci, rng, s)
		if k%5000 == 0 {
			r.Sample(map[string]any{"malformed": clipS(s)})
		}
	}
	// (a2) every parameter string of length <= 2 (<= 3 over quotes, backslash and parentheses) for
	// every parametric base, bare and inside the wrappers that forward Infer to their element
	{
		alpha := []string{"'", "\"", "(", ")", ",", " ", "=", "\\", "0", "a", "-", "3"}
		params := []string{""}
		for _, a := range alpha {
			params = append(params, a)
			for _, b := range alpha {
				params = append(params, a+b)
			}
		}
		for _, a := range []string{"'", "\\", "(", ")"} {
			for _, b := range []string{"'", "\\", "(", ")"} {
				for _, c := range []string{"'", "\\", "(", ")"} {
					params = append(params, a+b+c)
				}
			}
		}
		bases := []string{"DateTime", "DateTime64", "DateTime64(3, ", "Enum8", "Enum16", "FixedString", "Decimal", "Decimal(9, ", "Decimal32", "Array", "Nullable", "LowCardinality", "Map", "Map(String, ", "Tuple", "Interval", "Nested", "Point"}
		wraps := []string{"%s", "Nullable(%s)", "Array(%s)", "LowCardinality(%s)", "Array(Nullable(%s))", "Map(String, %s)", "Tuple(%s)"}
		for bi, b := range bases {
			ci++
			if !r.Take(ci) {
				continue
			}
			rng := r.Rand(ci, "enum-params")
			for _, p := range params {
				inner := b + "(" + p + ")"
				if strings.HasSuffix(b, ", ") {
					inner = b + p + ")"
				}
				for _, w := range wraps {
					checkTotal(ci, rng, fmt.Sprintf(w, inner))
				}
			}
			r.SetAdd("bases_with_enumerated_parameters", bases[bi])
		}
	}
	// (b) soundness on well-formed types
	var prevAuto *proto.ColAuto
	n = r.Pick(4000, 80000)
	for k := 0; k < n; k++ {
		ci++
		if !r.Take(ci) {
			continue
		}
		rng := r.Rand(ci, "good")
		s := genWellFormed(rng, rng.Intn(5))
		r.CaseLog(fmt.Sprintf("%d %q", ci, s))
		t, err := ref.ParseType(s)
		if err != nil {
			r.Violation("harness:generator", fmt.Sprintf("generated type %q does not parse: %v", s, err), s)
			continue
		}
		r.Eval()
		if strings.ContainsAny(s, "(") {
			r.NonTrivial("wellformed", s)
		}
		ct := proto.ColumnType(s)
		var a proto.ColAuto
		reused := false
		if prevAuto != nil && rng.Intn(3) == 0 {
			// a column object that was inferred for another type before (a reused AutoResult target)
			a, reused = *prevAuto, true
		}
		var ierr error
		if p := core.Recover(func() { ierr = a.Infer(ct) }); p != "" {
			r.Violation("ColAuto.Infer:panic", fmt.Sprintf("%q: %s", s, p), s)
			continue
		}
		if ierr != nil {
			r.Count("wellformed_infer_errors", 1)
			r.SetAdd("uninferable_shapes", typeSite(t))
			continue
		}
		r.Count("wellformed_inferred", 1)
		r.SetAdd("inferred_shapes", typeSite(t))
		if a.Data == nil {
			r.Violation("ColAuto.Infer:nil-column", fmt.Sprintf("%q: Infer returned nil error and no column", s), s)
			continue
		}
		var ty proto.ColumnType
		if p := core.Recover(func() { ty = a.Data.Type() }); p != "" {
			r.Violation("ColAuto.Infer:type-panic", p, s)
			continue
		}
		if ty.Conflicts(ct) || ct.Conflicts(ty) {
			r.Violation("ColAuto.Infer:conflicting-type:"+t.Base, fmt.Sprintf("Infer(%q) created a column of type %q which conflicts with the request", s, ty), s)
			continue
		}
		// decode a reference-encoded block of that type
		rows := []int{1, 2, 5, 30}[rng.Intn(4)]
		vals := val.GenColumn(rng, t, rows, val.GenOpt{MaxElem: 3})
		rb := &ref.Block{Rows: rows, Cols: []ref.Col{{Name: "c", Type: s, Vals: vals}}}
		var w ref.W
		if err := ref.EncodeBlock(&w, 54460, rb); err != nil {
			r.Violation("harness:ref-encode", err.Error(), s)
			continue
		}
		var res proto.Results
		var target proto.Result = res.Auto()
		if reused {
			res = proto.Results{{Name: "c", Data: &a}}
			target = res
		}
		prevAuto = &a
		var derr error
		if p := core.Recover(func() {
			var blk proto.Block
			derr = blk.DecodeBlock(proto.NewReader(bytes.NewReader(w.B)), 54460, target)
		}); p != "" {
			r.Violation("ColAuto:decode-panic:"+typeSite(t), fmt.Sprintf("%q: %s", s, p), s)
			continue
		}
		if derr != nil {
			r.Violation("ColAuto:decode-error:"+typeSite(t), fmt.Sprintf("inferred column for %q (column reused=%v) cannot decode a block of that type: %v", s, reused, derr), s)
			continue
		}
		got, err := val.ReadCol(res[0].Data, t)
		if err != nil {
			if strings.Contains(err.Error(), "unordered") || strings.Contains(err.Error(), "no row accessor") {
				continue
			}
			cls := "row-accessor"
			if strings.Contains(err.Error(), "enum name") {
				cls = "enum-name"
			}
			if reused {
				cls += ":reused-column"
			}
			r.Violation("ColAuto:decode-wrong:"+cls, fmt.Sprintf("%q (column reused=%v): %v", s, reused, err), s)
			continue
		}
		if d := diffVals(vals, got); d != "" {
			r.Violation("ColAuto:decode-wrong:values:"+typeSite(t), fmt.Sprintf("%q (column reused=%v): %s", s, reused, d), s)
		}
		if k%500 == 0 {
			r.Sample(map[string]any{"wellformed": s, "inferred_type": string(ty), "rows": rows})
		}
	}
	// (c) relation over a pool
	ci++
	poolN := r.Pick(220, 400)
	prng := r.Rand(0, "pool")
	var pool []string
	pool = append(pool, c19Plain...)
	pool = append(pool, "Decimal32", "Decimal64", "Decimal128", "Decimal256", "Enum8", "Enum16", "Map(String,String)", "Map(String, String)", "Map(String,Int32)",
		"DateTime('UTC')", "DateTime('Europe/Moscow')", "Array(Int8)", "Array(Enum8('a' = 1))", "Nullable(Int16)", "Nullable(Enum16('a' = 1))", "LowCardinality(String)", "Decimal(9, 2)", "Decimal(9,2)", "Decimal(76, 38)", "Nullable(Decimal(76, 38))", "Nullable(Decimal256)")
	// maps and tuples that differ in one position only, behind parameterised first elements
	for _, k := range []string{"String", "LowCardinality(String)", "DateTime64(3)", "Enum8('a' = 1, 'b' = 2)", "Decimal(9, 2)", "FixedString(4)", "DateTime('UTC')", "Nullable(Int32)"} {
		for _, v := range []string{"Int64", "UInt64", "String", "Array(String)", "Nullable(Int64)"} {
			pool = append(pool, "Map("+k+", "+v+")")
		}
		pool = append(pool, "Tuple("+k+", Int64)", "Tuple("+k+", UInt64)", "Tuple("+k+", Int64, String)")
	}
	poolN += 64
	for len(pool) < poolN {
		pool = append(pool, genWellFormed(prng, prng.Intn(3)))
	}
	// spacing variants (one, two, three spaces and none after commas) of comma-bearing types
	base := len(pool)
	for i := 0; i < base && len(pool) < poolN+80; i++ {
		if strings.Contains(pool[i], ",") && !strings.Contains(pool[i], "Enum") {
			pool = append(pool, respace(pool[i], []string{"", "  ", "   ", " "}[i%4]))
		}
	}
	parsed := make([]*ref.Type, len(pool))
	for i, s := range pool {
		parsed[i], _ = ref.ParseType(s)
	}
	for i, a := range pool {
		ci++
		if !r.Take(ci) {
			continue
		}
		ca := proto.ColumnType(a)
		if ca.Conflicts(ca) {
			r.Violation("Conflicts:not-reflexive", fmt.Sprintf("%q conflicts with itself", a), a)
		}
		for j, b := range pool {
			cb := proto.ColumnType(b)
			r.Eval()
			var ab, ba bool
			if p := core.Recover(func() { ab, ba = ca.Conflicts(cb), cb.Conflicts(ca) }); p != "" {
				r.Violation("Conflicts:panic", p, []string{a, b})
				continue
			}
			if i < j {
				r.NonTrivial("pair", a, b)
			}
			if ab != ba {
				r.Violation("Conflicts:asymmetric", fmt.Sprintf("%q.Conflicts(%q) = %v but the converse = %v", a, b, ab, ba), []string{a, b})
				continue
			}
			if parsed[i] == nil || parsed[j] == nil {
				continue
			}
			// bare "Enum8"/"Enum16" spellings are accepted by the library's table; skip them in the reference
			want, ok := refConflict(parsed[i], parsed[j])
			if !ok {
				r.Count("pairs_unspecified", 1)
				continue
			}
			r.Count("pairs_judged", 1)
			if ab != want {
				cls := "equivalence-reported-as-conflict"
				if want {
					cls = "different-types-reported-compatible"
				}
				r.Violation("Conflicts:"+cls+":"+parsed[i].Base+"/"+parsed[j].Base, fmt.Sprintf("%q vs %q: Conflicts = %v, reference relation says %v", a, b, ab, want), []string{a, b})
			}
		}
	}
}

func clipS(s string) string {
	if len(s) > 120 {
		return s[:120] + fmt.Sprintf("...(%d bytes)", len(s))
	}
	return s
}

// respace rewrites the whitespace after every comma outside quotes.
func respace(s, sp string) string {
	var sb strings.Builder
	inq := false
	for i := 0; i < len(s); i++ {
		c := s[i]
		sb.WriteByte(c)
		if inq {
			if c == '\\' && i+1 < len(s) {
				i++
				sb.WriteByte(s[i])
			} else if c == '\'' {
				inq = false
			}
			continue
		}
		if c == '\'' {
			inq = true
		}
		if c == ',' {
			for i+1 < len(s) && s[i+1] == ' ' {
				i++
			}
			sb.WriteString(sp)
		}
	}
	return sb.String()
}
