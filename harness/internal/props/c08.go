package props

import (
	"bytes"
	"context"
	"errors"
	"fmt"
	"io"
	"math/rand"
	"sync"
	"testing/iotest"
	"time"

	ch "github.com/ClickHouse/ch-go"
	"github.com/ClickHouse/ch-go/compress"
	"github.com/ClickHouse/ch-go/proto"

	"verif/internal/core"
	"verif/internal/ref"
	"verif/internal/simnet"
	"verif/internal/val"
)

func init() {
	Registry["C08"] = Spec{
		Fn:          c08,
		Level:       "exploration",
		Rule:        "the response scripts of C03 (incl. failing ones) are replayed under segmentations of the server byte stream: [codec level also: String + bulk column blocks (>= 300 KiB of UInt64 / UInt8 / raw UUID data ending the stream) whose last bytes arrive in the same Read call as io.EOF, whole and in two pieces] whole, one byte per read, two pieces at every offset (all offsets for streams <= 600 B, else 96 sampled), random split vectors, all 2^(n-1) splits of short (<= 12 B) responses, with 0..3 virtual read-deadline expiries before each packet, and with every packet split after its first byte / at a random offset by a pause that would expire an armed read deadline; the stream cut after a random byte (server gone) under whole / one-byte / two-piece-near-the-cut / random delivery must fail with the same error class (io.EOF, io.ErrUnexpectedEOF, exception, callback error); read timeouts also expire while a client write is held back by the peer (streamed INSERT, no caller deadline: nothing may time the write out); every run is compared with the executable model (same oracle as C03) and a follow-up Ping must find the connection at a packet boundary. Proto level: the pass-through ColRaw column followed by a String column under whole / one-byte / half / chunked / two-piece delivery; library-encoded blocks and messages (plain and inside each kind of compressed frame) decoded through one-byte, half, data-with-EOF and random-chunk readers must give the values and consumption of the one-shot decode. Non-trivial = >=2 segments that split a field; distinct = (stream, segmentation)",
		Assumptions: []string{"only read patterns a conforming io.Reader / net.Conn may produce"},
		MinDistinct: 500,
	}
}

// cutSeg delivers at most `cut` bytes in total before the rest.
func cutSeg(cuts []int) func(avail, want int) int {
	delivered := 0
	i := 0
	return func(avail, want int) int {
		n := avail
		if n > want {
			n = want
		}
		for i < len(cuts) && cuts[i] <= delivered {
			i++
		}
		if i < len(cuts) && delivered+n > cuts[i] {
			n = cuts[i] - delivered
		}
		if n < 1 {
			n = 1
		}
		delivered += n
		return n
	}
}

func c08(r *core.Run) {
	reps := revisionRepresentatives()
	var ci int64
	n := r.Pick(150, 4000)
	for k := 0; k < n; k++ {
		ci++
		if !r.Take(ci) {
			continue
		}
		rng := r.Rand(ci, "c08")
		s := genResponse(rng, reps)
		if k%5 == 0 {
			// small scripts: short streams for exhaustive splitting
			s.Schema, s.ResultMode = nil, "none"
			s.Packets = nil
			for j := 0; j < 1+rng.Intn(2); j++ {
				s.Packets = append(s.Packets, srvPacket{Kind: "progress", Prog: ref.Progress{Rows: uint64(rng.Intn(300)), Bytes: uint64(rng.Intn(70000))}})
			}
			s.Packets = append(s.Packets, srvPacket{Kind: "eos"})
		}
		neg := s.Neg()
		// length of the response stream (after the hello)
		respLen := 0
		for _, p := range s.Packets {
			respLen += len(s.encode(p, neg))
		}
		helloLen := len(newSim(nil2script(s.ServerRev)).Srv.ServerHelloBytes(s.ClientRev))
		r.CaseLog(fmt.Sprintf("%d resp=%dB %s", ci, respLen, s.Kinds()))
		ref0 := c03Check(r, ci, s, nil, "whole")
		run := func(name string, seg func(avail, want int) int) {
			got := c03Check(r, ci, s, seg, name)
			r.SetAdd("segmentation_kinds", segKind(name))
			if got != ref0 && ref0 != "trace-mismatch" && got != "trace-mismatch" && got != "hang" {
				r.Violation("segmentation-changes-outcome:"+segKind(name), fmt.Sprintf("script %s: segmentation %s gives a different outcome than whole delivery", s.Kinds(), name), map[string]any{"script": scriptDesc(s), "segmentation": name})
			}
		}
		run("one-byte", func(avail, want int) int { return 1 })
		if respLen <= 12 {
			// all 2^(n-1) splits of the response
			for mask := 0; mask < 1<<(respLen-1); mask++ {
				cuts := []int{helloLen}
				for b := 0; b < respLen-1; b++ {
					if mask&(1<<b) != 0 {
						cuts = append(cuts, helloLen+b+1)
					}
				}
				run(fmt.Sprintf("all-splits:%b", mask), cutSeg(cuts))
			}
			r.Count("streams_with_all_splits", 1)
		}
		total := helloLen + respLen
		var offs []int
		if total <= 600 {
			for o := 1; o < total; o++ {
				offs = append(offs, o)
			}
		} else {
			for j := 0; j < 96; j++ {
				offs = append(offs, 1+rng.Intn(total-1))
			}
		}
		if r.Quick() && len(offs) > 120 {
			rng.Shuffle(len(offs), func(i, j int) { offs[i], offs[j] = offs[j], offs[i] })
			offs = offs[:120]
		}
		for _, o := range offs {
			run(fmt.Sprintf("two-piece@%d", o), cutSeg([]int{o}))
		}
		for j := 0; j < 4; j++ {
			rs := rand.New(rand.NewSource(rng.Int63()))
			run(fmt.Sprintf("random#%d", j), func(avail, want int) int { return 1 + rs.Intn(1+rs.Intn(64)) })
		}
		// idle gaps: virtual read-deadline expiries before packets
		for j := 0; j < 2; j++ {
			s2 := *s
			s2.Packets = append([]srvPacket(nil), s.Packets...)
			for i := range s2.Packets {
				s2.Packets[i].Timeout = rng.Intn(4)
			}
			got := c03Check(r, ci, &s2, nil, "timeouts")
			r.SetAdd("segmentation_kinds", "idle-gaps")
			if got != ref0 && ref0 != "trace-mismatch" && got != "trace-mismatch" && got != "hang" {
				r.Violation("read-timeouts-change-outcome", fmt.Sprintf("script %s: read deadline expiries between packets changed the outcome", s2.Kinds()), map[string]any{"script": scriptDesc(&s2)})
			}
		}
		// pauses inside packets: each packet split at a random offset after its code byte, with a
		// silence long enough for an armed read deadline to expire (bodies are read without one)
		for j := 0; j < 3; j++ {
			s2 := *s
			s2.Packets = append([]srvPacket(nil), s.Packets...)
			for i := range s2.Packets {
				if j == 0 || rng.Intn(2) == 0 {
					s2.Packets[i].MidTimeout = 1 + rng.Intn(4096)
				}
				if j == 0 {
					s2.Packets[i].MidTimeout = 1 // right after the first byte
				}
			}
			got := c03Check(r, ci, &s2, nil, "pauses")
			r.SetAdd("segmentation_kinds", "pause-inside-packet")
			if got != ref0 && ref0 != "trace-mismatch" && got != "trace-mismatch" && got != "hang" {
				r.Violation("pause-inside-packet-changes-outcome", fmt.Sprintf("script %s: a pause inside a packet (longer than the read timeout) changed the outcome: %s instead of %s", s2.Kinds(), got, ref0), map[string]any{"script": scriptDesc(&s2)})
			}
		}
		// truncated streams: the server goes away after k bytes of the response; which error the
		// caller gets (io.EOF, io.ErrUnexpectedEOF, neither) must not depend on the segmentation
		if respLen > 1 {
			for j := 0; j < 3; j++ {
				s3 := *s
				s3.CutAfter = 1 + int64(rng.Intn(respLen-1))
				cls := func(seg func(avail, want int) int) string {
					res := runResponse(&s3, seg)
					if res.Client != nil {
						res.Client.Close()
					}
					r.Eval()
					if !res.Returned {
						return "hang"
					}
					if res.ConnErr != nil {
						return "connect-error"
					}
					if res.Err == nil {
						return "nil"
					}
					var ex *ch.Exception
					return fmt.Sprintf("EOF=%v UnexpectedEOF=%v exception=%v callback=%v", errors.Is(res.Err, io.EOF), errors.Is(res.Err, io.ErrUnexpectedEOF), errors.As(res.Err, &ex), errors.Is(res.Err, errInjected))
				}
				whole := cls(nil)
				rs := rand.New(rand.NewSource(rng.Int63()))
				for name, seg := range map[string]func(avail, want int) int{
					"one-byte":  func(avail, want int) int { return 1 },
					"two-piece": cutSeg([]int{helloLen + int(s3.CutAfter) - 1 - rs.Intn(int(min(s3.CutAfter, 9)))}),
					"random":    func(avail, want int) int { return 1 + rs.Intn(1+rs.Intn(64)) },
				} {
					got := cls(seg)
					r.SetAdd("segmentation_kinds", "truncated+"+name)
					r.NonTrivial(ci, "trunc", j, name)
					if got != whole && got != "hang" && whole != "hang" {
						r.Violation("truncated-stream-error-depends-on-segmentation:"+name, fmt.Sprintf("script %s cut after %d of %d response bytes: delivered at once Do fails with [%s], with %s segmentation with [%s]", s3.Kinds(), s3.CutAfter, respLen, whole, name, got), map[string]any{"script": scriptDesc(&s3), "cut_after": s3.CutAfter, "segmentation": name})
					}
				}
			}
		}
		// the connection must be at a packet boundary after a successful query
		c08Boundary(r, s, rng)
	}
	// idle gaps while a client write is held back by the peer
	for k := 0; k < r.Pick(16, 200); k++ {
		ci++
		if !r.Take(ci) {
			continue
		}
		r.CaseLog(fmt.Sprintf("%d blocked-write-idle %d", ci, k))
		c08BlockedWriteIdle(r, k)
	}
	// ---- proto level ----
	nb := r.Pick(250, 6000)
	for k := 0; k < nb; k++ {
		ci++
		if !r.Take(ci) {
			continue
		}
		rng := r.Rand(ci, "c08p")
		sel := k % (len(val.Catalogue) + 40)
		bc, err := genBlockCase(r, ci, sel, []int{1, 3, 9, 130}[rng.Intn(4)], val.BlockRevisions[rng.Intn(len(val.BlockRevisions))], val.GenOpt{MaxElem: 3, BigStr: rng.Intn(10) == 0})
		if err != nil {
			continue
		}
		streams := map[string][]byte{"plain": bc.Bytes}
		m := []c05Method{{compress.None, 0, "NONE"}, {compress.LZ4, 0, "LZ4"}, {compress.LZ4HC, 9, "LZ4HC"}, {compress.ZSTD, 0, "ZSTD"}}[k%4]
		w := compress.NewWriter(m.Level, m.M)
		if w.Compress(bc.Bytes) == nil {
			streams["compressed:"+m.Name] = append([]byte(nil), w.Data...)
		}
		for tn, stream := range streams {
			decode := func(rd io.Reader) (string, error) {
				pr := proto.NewReader(rd)
				if tn != "plain" {
					pr.EnableCompression()
				}
				dst, res, err := bc.targets()
				if err != nil {
					return "", err
				}
				var blk proto.Block
				if err := blk.DecodeBlock(pr, bc.Rev, res); err != nil {
					return "", err
				}
				// a sentinel after the block must still be readable: consumption is exact
				pr.DisableCompression()
				b, err := pr.ReadByte()
				if err != nil || b != 0xA5 {
					return "", fmt.Errorf("sentinel after the block: byte %x err %v", b, err)
				}
				return fmt.Sprintf("rows=%d %016x", blk.Rows, valsFingerprint(readAll(dst))), nil
			}
			full := append(append([]byte(nil), stream...), 0xA5)
			want, err := decode(bytes.NewReader(full))
			if err != nil {
				r.Note("skipped (one-shot decode fails): " + err.Error())
				continue
			}
			rs := rand.New(rand.NewSource(rng.Int63()))
			readers := map[string]func() io.Reader{
				"one-byte":      func() io.Reader { return iotest.OneByteReader(bytes.NewReader(full)) },
				"half":          func() io.Reader { return iotest.HalfReader(bytes.NewReader(full)) },
				"data-with-eof": func() io.Reader { return iotest.DataErrReader(bytes.NewReader(full)) },
				"random-chunks": func() io.Reader { return &chunkReader{r: bytes.NewReader(full), rng: rs} },
				"timeouts":      func() io.Reader { return iotest.OneByteReader(iotest.HalfReader(bytes.NewReader(full))) },
			}
			for rn, mk := range readers {
				r.Eval()
				r.NonTrivial("proto", bc.TS, tn, rn, core.Hash(stream))
				var got string
				var derr error
				if p := core.Recover(func() { got, derr = decode(mk()) }); p != "" {
					r.Violation("proto-segmentation-panic:"+rn, p, map[string]any{"case": bc.Desc(), "transport": tn, "reader": rn})
					continue
				}
				if derr != nil || got != want {
					r.Violation("proto-segmentation:"+tn[:5]+":"+rn, fmt.Sprintf("%s (%s) via %s reader: err=%v, result %q, one-shot result %q", bc.TS, tn, rn, derr, got, want), map[string]any{"case": bc.Desc(), "transport": tn, "reader": rn})
				}
			}
		}
	}
	// the pass-through column (proto.ColRaw) followed by another column: its bytes must be its own
	// whatever arrives later and however the stream is cut
	for k := 0; k < r.Pick(40, 400); k++ {
		ci++
		if !r.Take(ci) {
			continue
		}
		rng := r.Rand(ci, "colraw")
		rows := []int{1, 3, 40, 300}[rng.Intn(4)]
		size := []int{1, 8, 16}[rng.Intn(3)]
		ts := map[int]string{1: "UInt8", 8: "UInt64", 16: "UUID"}[size]
		t0, _ := ref.ParseType(ts)
		t1, _ := ref.ParseType("String")
		vs0 := val.GenColumn(rng, t0, rows, val.GenOpt{})
		vs1 := val.GenColumn(rng, t1, rows, val.GenOpt{})
		var w ref.W
		if err := ref.EncodeBlock(&w, 54460, &ref.Block{Info: ref.BlockInfo{Bucket: -1}, Rows: rows, Cols: []ref.Col{{Name: "raw", Type: ts, Vals: vs0}, {Name: "s", Type: "String", Vals: vs1}}}); err != nil {
			continue
		}
		var want []byte
		for _, v := range vs0 {
			want = append(want, v.B...)
		}
		full := w.B
		rs := rand.New(rand.NewSource(rng.Int63()))
		readers := map[string]func() io.Reader{
			"whole":         func() io.Reader { return bytes.NewReader(full) },
			"one-byte":      func() io.Reader { return iotest.OneByteReader(bytes.NewReader(full)) },
			"half":          func() io.Reader { return iotest.HalfReader(bytes.NewReader(full)) },
			"random-chunks": func() io.Reader { return &chunkReader{r: bytes.NewReader(full), rng: rs} },
		}
		for o := 1; o < len(full); o += 1 + len(full)/60 {
			o := o
			readers[fmt.Sprintf("two-piece@%d", o)] = func() io.Reader { return io.MultiReader(bytes.NewReader(full[:o]), bytes.NewReader(full[o:])) }
		}
		for rn, mk := range readers {
			r.Eval()
			r.NonTrivial("colraw", ts, rows, segKind(rn), core.Hash(full))
			raw := &proto.ColRaw{T: proto.ColumnType(ts), Size: size}
			str := new(proto.ColStr)
			var blk proto.Block
			var derr error
			if p := core.Recover(func() {
				derr = blk.DecodeBlock(proto.NewReader(mk()), 54460, proto.Results{{Name: "raw", Data: raw}, {Name: "s", Data: str}})
			}); p != "" {
				r.Violation("proto-segmentation-panic:ColRaw", p, map[string]any{"reader": rn, "rows": rows, "type": ts})
				continue
			}
			if derr != nil || !bytes.Equal(raw.Data, want) {
				r.Violation("proto-segmentation:ColRaw:"+segKind(rn), fmt.Sprintf("ColRaw(%s) followed by a String column, %d rows, %s reader: err=%v, the raw column holds %x..., sent %x...", ts, rows, rn, derr, clip(raw.Data), clip(want)), map[string]any{"reader": rn, "rows": rows, "type": ts})
			}
		}
	}
	// bulk column data that ends the stream, with the last bytes arriving TOGETHER with io.EOF (a
	// Read may return n > 0 and an error at once; io.ReadFull treats a filled buffer as success).  The
	// bulk data is larger than the 128 KiB buffer of proto.NewReader, so the final Read goes through
	// bufio's direct path and its error is not deferred to a later call.
	for k := 0; k < r.Pick(12, 60); k++ {
		ci++
		if !r.Take(ci) {
			continue
		}
		rng := r.Rand(ci, "bulktail")
		kind := k % 3
		ts := []string{"UInt64", "UInt8", "UUID"}[kind]
		rows := []int{40000 + rng.Intn(5000), 300000 + rng.Intn(50000), 20000 + rng.Intn(3000)}[kind]
		t0, _ := ref.ParseType("String")
		t1, _ := ref.ParseType(ts)
		vs0 := val.GenColumn(rng, t0, rows, val.GenOpt{MaxElem: 2})
		vs1 := val.GenColumn(rng, t1, rows, val.GenOpt{})
		var w ref.W
		if err := ref.EncodeBlock(&w, 54460, &ref.Block{Info: ref.BlockInfo{Bucket: -1}, Rows: rows, Cols: []ref.Col{{Name: "s", Type: "String", Vals: vs0}, {Name: "bulk", Type: ts, Vals: vs1}}}); err != nil {
			continue
		}
		full := w.B
		mkTarget := func() proto.ColResult {
			switch kind {
			case 0:
				return new(proto.ColUInt64)
			case 1:
				return new(proto.ColUInt8)
			}
			return &proto.ColRaw{T: proto.ColumnTypeUUID, Size: 16}
		}
		decode := func(rd io.Reader) (string, error, string) {
			str, bulk := new(proto.ColStr), mkTarget()
			var blk proto.Block
			var derr error
			if p := core.Recover(func() {
				derr = blk.DecodeBlock(proto.NewReader(rd), 54460, proto.Results{{Name: "s", Data: str}, {Name: "bulk", Data: bulk}})
			}); p != "" {
				return "", nil, p
			}
			if derr != nil {
				return "", derr, ""
			}
			var b proto.Buffer
			str.EncodeColumn(&b)
			bulk.(interface{ EncodeColumn(*proto.Buffer) }).EncodeColumn(&b)
			return fmt.Sprint(core.Hash(b.Buf)), nil, ""
		}
		wantHash, werr, wp := decode(bytes.NewReader(full))
		if werr != nil || wp != "" {
			r.Inconclusive(fmt.Sprintf("bulk-tail: whole delivery of a reference block fails: %v %s", werr, wp))
			continue
		}
		cutSets := map[string][]int{"whole+eof": nil}
		for j := 0; j < 6; j++ {
			o := 1 + rng.Intn(len(full)-1)
			if j == 0 {
				o = len(full) - 131072 - rng.Intn(4096) // the tail is just over one bufio buffer
			}
			if j == 1 {
				o = len(full) - 1
			}
			cutSets[fmt.Sprintf("two-piece@%d+eof", o)] = []int{o}
		}
		for rn, cuts := range cutSets {
			r.Eval()
			r.NonTrivial("bulk-tail", ts, rows, rn)
			r.Count("bulk_tail_data_with_eof_deliveries", 1)
			got, derr, p := decode(&dataEOFReader{b: full, cuts: cuts})
			cs := map[string]any{"reader": rn, "rows": rows, "type": ts, "stream_bytes": len(full)}
			if p != "" {
				r.Violation("proto-segmentation-panic:bulk-tail", p, cs)
			} else if derr != nil || got != wantHash {
				r.Violation("proto-segmentation:bulk-tail:data-with-eof", fmt.Sprintf("String + %s block of %d rows (%d bytes), last bytes delivered together with io.EOF (%s): err=%v, same values=%v; the same bytes from a plain reader decode fine", ts, rows, len(full), rn, derr, got == wantHash), cs)
			}
		}
	}
	// messages through segmenting readers
	for _, rev := range revisionRepresentatives() {
		ci++
		if !r.Take(ci) {
			continue
		}
		rng := r.Rand(ci, "c08m")
		for _, mc := range genMessages(rng, rev) {
			want, err := mc.Decode(bytes.NewReader(mc.Bytes))
			if err != nil {
				continue
			}
			for rn, mk := range map[string]func() io.Reader{
				"one-byte":      func() io.Reader { return iotest.OneByteReader(bytes.NewReader(mc.Bytes)) },
				"half":          func() io.Reader { return iotest.HalfReader(bytes.NewReader(mc.Bytes)) },
				"data-with-eof": func() io.Reader { return iotest.DataErrReader(bytes.NewReader(mc.Bytes)) },
			} {
				r.Eval()
				r.NonTrivial("msg", mc.Name, rev, rn)
				got, derr := mc.Decode(mk())
				if derr != nil || got != want {
					r.Violation("proto-segmentation:message:"+mc.Name, fmt.Sprintf("%s rev %d via %s reader: err=%v", mc.Name, rev, rn, derr), map[string]any{"message": mc.Name, "rev": rev, "reader": rn, "bytes": mc.Bytes})
				}
			}
		}
	}
}

// dataEOFReader delivers b in the pieces given by cuts (absolute offsets) and returns io.EOF in the
// same call as the last bytes, as io.Reader permits.
type dataEOFReader struct {
	b    []byte
	cuts []int
	pos  int
}

func (d *dataEOFReader) Read(p []byte) (int, error) {
	if d.pos >= len(d.b) {
		return 0, io.EOF
	}
	end := len(d.b)
	for _, c := range d.cuts {
		if c > d.pos && c < end {
			end = c
		}
	}
	n := copy(p, d.b[d.pos:end])
	d.pos += n
	if d.pos == len(d.b) {
		return n, io.EOF
	}
	return n, nil
}

type chunkReader struct {
	r   io.Reader
	rng *rand.Rand
}

func (c *chunkReader) Read(p []byte) (int, error) {
	n := 1 + c.rng.Intn(1+c.rng.Intn(97))
	if n > len(p) {
		n = len(p)
	}
	return c.r.Read(p[:n])
}

func segKind(name string) string {
	for i := 0; i < len(name); i++ {
		if name[i] == '@' || name[i] == ':' || name[i] == '#' {
			return name[:i]
		}
	}
	return name
}

// c08BlockedWriteIdle: "read timeouts that expire between packets while a query is running are
// retried and change nothing" - also while the sender is in the middle of a write that the peer
// is slow to take (back-pressure): the server reads nothing and sends nothing for 12 read
// timeouts, then resumes. The context has no deadline, so nothing may time the write out.
func c08BlockedWriteIdle(r *core.Run, k int) {
	script := &simnet.Script{Rev: 54460}
	sim := newSim(script)
	script.OnQuery = func(rq *ref.Query) []simnet.Item {
		hdr := &ref.Block{Cols: []ref.Col{{Name: "n", Type: "UInt64"}}}
		return []simnet.Item{{Data: simnet.PacketData(54460, ref.ServerDataCode, hdr, false, 0)}}
	}
	script.OnDataEnd = func() []simnet.Item { return []simnet.Item{{Data: simnet.PacketEnd()}} }
	sim.Srv.InputExpected = func(*ref.Query) bool { return true }
	var once sync.Once
	gateName := fmt.Sprintf("write:before:%d", 2+k%4)
	sim.Conn.OnGate = func(g string) {
		if g == gateName {
			once.Do(func() {
				w := sim.Conn.WrittenBytes()
				sim.Conn.Locked(func() { sim.Conn.BlockWritesAfter = w + int64(k%7) })
				time.AfterFunc(360*time.Millisecond, sim.Conn.UnblockWrites)
			})
		}
	}
	col := new(proto.ColUInt64)
	for i := 0; i < 50; i++ {
		col.Append(uint64(i))
	}
	round := 0
	var cerr, derr error
	ok := runWithWatchdog(30*time.Second, func() {
		ctx := context.Background()
		if cerr = sim.connect(ctx, ch.Options{ReadTimeout: 30 * time.Millisecond}); cerr != nil {
			return
		}
		derr = sim.Client.Do(ctx, ch.Query{Body: "INSERT INTO t VALUES", Input: proto.Input{{Name: "n", Data: col}}, OnInput: func(context.Context) error {
			round++
			if round >= 4 {
				return io.EOF
			}
			col.Reset()
			for i := 0; i < 50; i++ {
				col.Append(uint64(round*1000 + i))
			}
			return nil
		}})
	})
	r.Eval()
	r.NonTrivial("blocked-write-idle", k)
	r.SetAdd("segmentation_kinds", "idle-gap-during-blocked-write")
	desc := map[string]any{"blocked_write": gateName, "bytes_of_it_accepted": k % 7}
	switch {
	case !ok:
		r.Inconclusive("insert with a blocked write did not return")
		sim.Conn.Close()
	case cerr != nil:
		r.Violation("harness:handshake", cerr.Error(), desc)
	case derr != nil || sim.Srv.Err != nil:
		r.Violation("read-timeouts-change-outcome:during-blocked-write", fmt.Sprintf("a streamed INSERT whose %s was held back by the peer for 12 read timeouts (no caller deadline) failed: Do=%v, server-side parse error=%v", gateName, derr, sim.Srv.Err), desc)
	}
	if sim.Client != nil {
		sim.Client.Close()
	}
}

// c08Boundary: after a query that ends with EndOfStream, a Ping on the same client must succeed
// under one-byte delivery (bytes consumed == bytes of the response).
func c08Boundary(r *core.Run, s *respScript, rng *rand.Rand) {
	_, outcome := s.modelTrace()
	if outcome != "nil" {
		return
	}
	res := runResponse(s, func(avail, want int) int { return 1 + rng.Intn(3) })
	if !res.Returned || res.ConnErr != nil || res.Err != nil {
		return
	}
	defer res.Client.Close()
	var perr error
	ok := runWithWatchdog(30*time.Second, func() { perr = res.Client.Ping(context.Background()) })
	r.Eval()
	if !ok {
		r.Inconclusive("ping after query did not return")
		return
	}
	if perr != nil {
		r.Violation("not-at-packet-boundary-after-query", fmt.Sprintf("script %s: Ping after the query failed: %v", s.Kinds(), perr), scriptDesc(s))
	}
	r.Count("followup_pings", 1)
}
