package props

import (
	"errors"
	"fmt"
	"strings"

	"github.com/ClickHouse/ch-go"
	"github.com/ClickHouse/ch-go/proto"

	"verif/internal/core"
)

func init() {
	Registry["C03"] = Spec{
		Fn:          c03,
		Level:       "exploration",
		Rule:        "seeded server scripts of 1..40 packets over every handled kind (Data/Totals blocks of catalogue schemas incl. zero-row headers and mid-stream end markers, Progress, Profile, ProfileEvents with UInt64/Int64 values, Log, TableColumns, Exception chains of depth 1..6 (and around 16, 30..70, around 256) with known and unknown codes, EndOfStream), reference-encoded at the negotiated revision (threshold neighbours on both sides), compression on/off (a third of the scripts mix NONE / LZ4 / ZSTD frames on one connection), typed / single ResultColumn / Results.Auto / no result targets, with and without OnResult, every subset of telemetry callbacks, optionally one failing callback invocation; a quarter of the scripts are delivered by a slow server (idle gaps before packets, pauses longer than the read timeout inside packets). The client's callback trace (kind, order, arguments, snapshot of the bound columns taken inside OnResult) and return value are compared with an executable model of the receive loop. Non-trivial = >=3 packets of >=2 kinds or an exception chain of depth >=2; distinct = (kind sequence, schema, callback subset)",
		Assumptions: []string{"the executable model of the receive loop in harness/internal/props/script.go (documented single-block rule without OnResult, rows without target are an error)"},
		MinDistinct: 300,
	}
}

func c03(r *core.Run) {
	reps := revisionRepresentatives()
	n := r.Pick(2000, 50000)
	for ci := int64(1); ci <= int64(n); ci++ {
		if !r.Take(ci) {
			continue
		}
		rng := r.Rand(ci, "c03")
		s := genResponse(rng, reps)
		if ci%3 == 0 {
			// the server picks the compression method frame by frame
			for i := range s.Packets {
				s.Packets[i].Method = rng.Intn(4)
			}
		}
		if ci%4 == 0 {
			// a slow server: some packets arrive in two pieces with a pause longer than the read
			// timeout between them, others after idle gaps; delivery must be the same
			for i := range s.Packets {
				switch rng.Intn(3) {
				case 0:
					s.Packets[i].MidTimeout = 1 + rng.Intn(4096)
				case 1:
					s.Packets[i].Timeout = rng.Intn(3)
				}
			}
			r.Count("scripts_with_pauses", 1)
		}
		r.CaseLog(fmt.Sprintf("%d rev=%d/%d %s mode=%s %s", ci, s.ClientRev, s.ServerRev, s.Comp, s.ResultMode, s.Kinds()))
		c03Check(r, ci, s, nil, "")
	}
}

func scriptDesc(s *respScript) map[string]any {
	var schema []string
	for _, e := range s.Schema {
		schema = append(schema, e.Type)
	}
	return map[string]any{"client_rev": s.ClientRev, "server_rev": s.ServerRev, "compression": s.Comp.String(), "schema": schema, "result_mode": s.ResultMode,
		"on_result": s.HasOnResult, "handlers": s.Handlers, "fail_at_callback": s.FailAt, "packets": s.Kinds()}
}

// c03Check runs the script and compares with the model; returns the observed summary.
func c03Check(r *core.Run, ci int64, s *respScript, seg func(avail, want int) int, segName string) string {
	want, outcome := s.modelTrace()
	res := runResponse(s, seg)
	r.Eval()
	desc := scriptDesc(s)
	if segName != "" {
		desc["segmentation"] = segName
	}
	kinds := map[string]bool{}
	maxDepth := 0
	for _, p := range s.Packets {
		kinds[p.Kind] = true
		if len(p.Chain) > maxDepth {
			maxDepth = len(p.Chain)
		}
	}
	if (len(s.Packets) >= 3 && len(kinds) >= 2) || maxDepth >= 2 {
		r.NonTrivial(s.Kinds(), fmt.Sprint(desc["schema"]), fmt.Sprint(s.Handlers), s.ResultMode, s.HasOnResult, segName)
	}
	for k := range kinds {
		r.SetAdd("packet_kinds", k)
	}
	r.SetAdd("outcomes", outcome)
	r.Count("callbacks_observed", int64(len(res.Trace)))
	r.Count("server_packets_scripted", int64(len(s.Packets)))
	fail := func(class, msg string) {
		r.Violation(class, fmt.Sprintf("%s | script: %s [rev %d/%d %s mode=%s onresult=%v]", msg, s.Kinds(), s.ClientRev, s.ServerRev, s.Comp, s.ResultMode, s.HasOnResult), desc)
	}
	if !res.Returned {
		r.Inconclusive(fmt.Sprintf("script %d did not return within the watchdog: %s", ci, s.Kinds()))
		return "hang"
	}
	if res.ConnErr != nil {
		fail("handshake-failed", res.ConnErr.Error())
		return "connect-error"
	}
	defer res.Client.Close()
	if res.SrvErr != nil {
		fail("client-stream-malformed", res.SrvErr.Error())
	}
	// trace
	if d := diffTrace(want, res.Trace); d != "" {
		cls := "callback-trace"
		switch {
		case strings.Contains(d, "result "):
			cls = "callback-trace:result"
		case strings.Contains(d, "progress"):
			cls = "callback-trace:progress"
		case strings.Contains(d, "profile"):
			cls = "callback-trace:profile"
		case strings.Contains(d, "event"):
			cls = "callback-trace:profile-events"
		case strings.Contains(d, "log"):
			cls = "callback-trace:log"
		}
		fail(cls, d)
		return "trace-mismatch"
	}
	// outcome
	err := res.Err
	switch outcome {
	case "nil":
		if err != nil {
			fail("error-on-clean-stream", "Do returned "+err.Error())
		}
	case "exception":
		chain := s.Packets[len(s.Packets)-1].Chain
		if err == nil {
			fail("exception-lost", "the stream ended with an exception but Do returned nil")
			break
		}
		var ex *ch.Exception
		if !errors.As(err, &ex) {
			fail("exception-not-recoverable", "errors.As(*ch.Exception) failed on "+err.Error())
			break
		}
		top := chain[0]
		if int32(ex.Code) != top.Code || ex.Name != top.Name || ex.Message != top.Message || ex.Stack != top.Stack {
			fail("exception-fields", fmt.Sprintf("top exception %+v, sent %+v", *ex, top))
		}
		if len(ex.Next) != len(chain)-1 {
			fail("exception-chain-length", fmt.Sprintf("%d nested causes recovered, %d sent", len(ex.Next), len(chain)-1))
		} else {
			for i, n := range ex.Next {
				c := chain[i+1]
				if int32(n.Code) != c.Code || n.Name != c.Name || n.Message != c.Message || n.Stack != c.Stack {
					fail("exception-chain-order", fmt.Sprintf("nested cause %d is %+v, sent %+v", i, n, c))
					break
				}
			}
		}
		for i, c := range chain {
			if !errors.Is(err, proto.Error(c.Code)) {
				fail("exception-code-not-matchable", fmt.Sprintf("errors.Is(err, code %d) is false for chain element %d", c.Code, i))
				break
			}
		}
		if !ch.IsException(err) || !ch.IsErr(err, proto.Error(top.Code)) {
			fail("exception-helpers", "IsException/IsErr disagree")
		}
	case "error:injected":
		if err == nil {
			fail("callback-error-swallowed", "a callback failed but Do returned nil")
		} else if !errors.Is(err, errInjected) {
			fail("callback-error-not-wrapped", "Do returned "+err.Error())
		}
	default:
		if err == nil {
			fail("nil-on-"+strings.TrimPrefix(outcome, "error:"), "Do returned nil although the model expects "+outcome)
		}
	}
	if ci%150 == 0 && segName == "" {
		r.Sample(map[string]any{"script": desc, "expected_trace_len": len(want), "outcome": outcome})
	}
	return outcome + "|" + strings.Join(res.Trace, "\n") + "|" + fmtErrClass(err)
}

func fmtErrClass(err error) string {
	if err == nil {
		return "nil"
	}
	var ex *ch.Exception
	if errors.As(err, &ex) {
		return fmt.Sprintf("exception(%d)", ex.Code)
	}
	if errors.Is(err, errInjected) {
		return "injected"
	}
	return "error"
}

func diffTrace(want, got []string) string {
	for i := 0; i < len(want) || i < len(got); i++ {
		switch {
		case i >= len(got):
			return fmt.Sprintf("callback #%d missing: expected %q (%d callbacks ran, %d expected)", i, clipS(want[i]), len(got), len(want))
		case i >= len(want):
			return fmt.Sprintf("unexpected extra callback #%d: %q (%d expected)", i, clipS(got[i]), len(want))
		case want[i] != got[i]:
			return fmt.Sprintf("callback #%d differs: got %q, expected %q", i, clipS(got[i]), clipS(want[i]))
		}
	}
	return ""
}
