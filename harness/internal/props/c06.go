package props

import (
	"bytes"
	"encoding/binary"
	"fmt"
	"io"
	"math"
	"math/rand"
	"reflect"
	"regexp"
	"strings"
	"time"

	"github.com/ClickHouse/ch-go/compress"
	"github.com/ClickHouse/ch-go/proto"
	"github.com/go-faster/city"

	"verif/internal/core"
	"verif/internal/ref"
	"verif/internal/val"
)

func init() {
	Registry["C06"] = Spec{
		Fn:           c06,
		Level:        "exploration",
		Rule:         "inputs = structure-aware mutations of valid library encodings (blocks of every catalogue column and random compositions; every protocol message): every bit flipped and every byte replaced by {00,01,7f,80,ff} at every offset of small encodings; a uvarint and a 64-bit field overwritten at every offset with {0,1,cap-1,cap,cap+1,2^31,2^32,2^63-1,2^64-1} and smaller/non-monotonic neighbours; splices, truncation+garbage, duplication; the column type name in the block header replaced by ~130 malformed names (parentheses reversed / unbalanced / emptied, parameters cut or replaced by garbage, bad Enum / DateTime64 / Decimal / FixedString parameters, nesting 50 and 2000 deep); the same blocks inside NONE / LZ4 / ZSTD frames whose header fields are forged (every small value and the 2^k boundaries of both size fields, with the original and with a recomputed checksum) or bit-flipped; decoded through typed, boxed and inferred targets and every message decoder. Two regimes: 'flood' (hook caps lowered to 2^16 rows / 2^20 string bytes; arbitrary mutations; allocation delta <= 64 MiB + 16*len) and 'cap' (hook inert; only fields set just beyond and far beyond the library's caps at known field positions; must be rejected with an allocation delta <= 4 MiB). Oracle: no panic (also in Error()/%+v of the returned error), no worker abort, no reads continuing after EOF, and on success every column reports the block's rows and every Row(i)/RowKV(i) below it works (and a Bool it hands out is true or false, not a third byte value). Non-trivial = the decoder consumed at least the block header; distinct = (target, mutation kind, offset class, outcome class)",
		Assumptions:  []string{"allocation measured with runtime/metrics /gc/heap/allocs:bytes (shard workers are single-threaded)", "by-design allocations within the library's own caps (e.g. 100M rows x element size) are avoided in the flood regime by the tag-guarded extra caps"},
		MinDistinct:  1000,
		TimeoutQuick: 15 * time.Minute,
		MemLimit:     12 << 30,
	}
}

// fusedReader counts Read calls after it returned EOF.
type fusedReader struct {
	r        *bytes.Reader
	afterEOF int
}

func (f *fusedReader) Read(p []byte) (int, error) {
	n, err := f.r.Read(p)
	if err == io.EOF {
		f.afterEOF++
	}
	return n, err
}

var reLibFrame = regexp.MustCompile(`github\.com/ClickHouse/ch-go/([A-Za-z0-9_/.*()\[\]]+)`)

func panicSite(stack string) string {
	// first library frame that is not a runtime frame
	for _, line := range strings.Split(stack, "\n") {
		if m := reLibFrame.FindStringSubmatch(line); m != nil && !strings.Contains(line, ".go:") {
			s := m[1]
			if i := strings.Index(s, "[...]"); i >= 0 {
				s = s[:i] + s[i+5:]
			}
			s = strings.TrimSuffix(s, "(...)")
			// drop the argument list (addresses differ from run to run): "(*Reader).readBlock(0xc0..)"
			if i := strings.LastIndexByte(s, '('); i > 0 && (i+1 >= len(s) || s[i+1] != '*') {
				s = s[:i]
			}
			if i := strings.IndexByte(s, '('); i > 0 && !strings.Contains(s[:i], ".") {
				continue
			}
			return s
		}
	}
	return "unknown"
}

type c06Outcome struct {
	class string
	err   error
}

// c06Decode runs one block decode and applies the oracles. kind describes the mutation.
func c06Decode(r *core.Run, regime, kind string, bc *blockCase, data []byte, decoder string, allocLimit uint64) string {
	fr := &fusedReader{r: bytes.NewReader(data)}
	rd := proto.NewReader(fr)
	var blk proto.Block
	var derr error
	var target proto.Result
	var dst val.LibCol
	var ares proto.Results
	switch decoder {
	case "auto":
		target = ares.Auto()
	default:
		d, res, err := bc.targets()
		if err != nil {
			return "skip"
		}
		dst, target = d, res
	}
	cs := func() any {
		return map[string]any{"regime": regime, "mutation": kind, "case": bc.Desc(), "decoder": decoder, "input": data}
	}
	r.Eval()
	before := allocBytes()
	p := core.Recover(func() { derr = blk.DecodeBlock(rd, bc.Rev, target) })
	delta := allocBytes() - before
	if p != "" {
		r.Violation("panic:"+panicSite(p), fmt.Sprintf("%s/%s decoding %s (%s): %s", regime, kind, bc.TS, decoder, p), cs())
		return "panic"
	}
	if fr.afterEOF > 64 {
		r.Violation("reads-after-EOF", fmt.Sprintf("%s/%s decoding %s: the decoder called Read %d times after EOF", regime, kind, bc.TS, fr.afterEOF), cs())
	}
	if delta > allocLimit {
		site := typeSite(bc.T)
		r.Violation("allocation:"+regime+":"+strings.SplitN(kind, "@", 2)[0], fmt.Sprintf("%s/%s decoding %s (%s, %d input bytes): %d bytes allocated (limit %d), err=%v [%s]", regime, kind, bc.TS, decoder, len(data), delta, allocLimit, derr, site), cs())
	}
	if derr != nil {
		if p := core.Recover(func() { _ = derr.Error(); _ = fmt.Sprintf("%+v", derr) }); p != "" {
			r.Violation("panic:error-rendering", p, cs())
		}
		// targets are reused across blocks: the next (valid) block into the same targets must not
		// crash either, whatever the failed decode left behind
		if regime == "flood" && len(data)%4 == 0 {
			var blk2 proto.Block
			var err2 error
			r.Eval()
			if p := core.Recover(func() { err2 = blk2.DecodeBlock(proto.NewReader(bytes.NewReader(bc.Bytes)), bc.Rev, target) }); p != "" {
				r.Violation("panic:reused-target-after-failed-decode:"+decoder+":"+panicSite(p), fmt.Sprintf("%s/%s: after a failed decode of %s (%s), decoding the valid block into the same target panics: %s", regime, kind, bc.TS, decoder, p), cs())
				return "panic"
			}
			if err2 == nil && decoder != "auto" && dst != nil {
				if p := core.Recover(func() {
					for i := 0; i < dst.Col().Rows(); i++ {
						_ = dst.Get(i)
					}
				}); p != "" {
					r.Violation("inconsistent:reused-target-row-accessor", p, cs())
				}
				if d := diffVals(bc.Vals, readAllSafe(dst)); d != "" {
					r.Violation("inconsistent:reused-target-values:"+typeSite(bc.T), fmt.Sprintf("after a failed decode, the valid block decoded into the same target gives other values: %s", d), cs())
				}
			}
			r.Count("reuse_after_failed_decode", 1)
		}
		return "error"
	}
	// success: consistency walk
	if blk.Rows > 0 || blk.Columns > 0 {
		if p := core.Recover(func() {
			if decoder == "auto" {
				for _, rc := range ares {
					if rc.Data.Rows() != blk.Rows {
						r.Violation("inconsistent:rows", fmt.Sprintf("%s/%s: inferred column %q reports %d rows, block has %d", regime, kind, rc.Name, rc.Data.Rows(), blk.Rows), cs())
						return
					}
				}
				for _, rc := range ares {
					if msg := c06RowsPanic(rc.Data, blk.Rows); msg != "" {
						r.Violation("inconsistent:row-accessor-panics:inferred", fmt.Sprintf("%s/%s: decoding succeeded (rows=%d) but Row(i) of the inferred column %q (%s) panics: %s", regime, kind, blk.Rows, rc.Name, clipN([]byte(rc.Data.Type()), 60), firstLineOf(msg)), cs())
						return
					}
				}
				if len(ares) > 0 {
					if at, err := ref.ParseType(string(ares[0].Data.Type())); err == nil {
						if _, err := val.ReadCol(ares[0].Data, at); err != nil && strings.Contains(err.Error(), "panicked") {
							r.Violation("inconsistent:row-accessor-panics:"+typeSite(at), fmt.Sprintf("%s/%s: decoding succeeded but %v", regime, kind, err), cs())
						}
					}
				}
				return
			}
			if n := dst.Col().Rows(); n != blk.Rows && blk.Columns > 0 {
				r.Violation("inconsistent:rows", fmt.Sprintf("%s/%s decoding %s: column reports %d rows, block has %d", regime, kind, bc.TS, n, blk.Rows), cs())
				return
			}
			for i := 0; i < blk.Rows && blk.Columns > 0; i++ {
				var rp string
				var got ref.Val
				if rp = core.Recover(func() { got = dst.Get(i) }); rp != "" {
					r.Violation("inconsistent:row-accessor-panics:"+typeSite(bc.T), fmt.Sprintf("%s/%s decoding %s succeeded (rows=%d) but Row(%d) panics: %s", regime, kind, bc.TS, blk.Rows, i, firstLineOf(rp)), cs())
					return
				}
				if kind != "type-name" && c06BadBool(bc.T, got) {
					r.Violation("inconsistent:row-accessor-returns-non-bool:"+typeSite(bc.T), fmt.Sprintf("%s/%s decoding %s succeeded (rows=%d) but Row(%d) hands out a bool that is neither true nor false (a byte other than 0/1 was accepted)", regime, kind, bc.TS, blk.Rows, i), cs())
					return
				}
			}
		}); p != "" {
			r.Violation("panic:consistency-walk", p, cs())
		}
		// targets stay bound for the following blocks: a zero-row block of the same schema, spliced
		// after the accepted one, must leave every column with the row count of *that* block
		if decoder != "auto" && dst != nil && blk.Rows > 0 && blk.Columns > 0 && regime == "flood" && kind != "type-name" && len(data)%3 == 0 {
			hdr := &ref.Block{Info: ref.BlockInfo{Bucket: -1}}
			switch bc.Order {
			case 0:
				hdr.Cols = []ref.Col{{Name: "v", Type: bc.TS}, {Name: "i", Type: "UInt32"}}
			case 1:
				hdr.Cols = []ref.Col{{Name: "i", Type: "UInt32"}, {Name: "v", Type: bc.TS}}
			default:
				hdr.Cols = []ref.Col{{Name: "v", Type: bc.TS}}
			}
			var w0 ref.W
			if ref.EncodeBlock(&w0, bc.Rev, hdr) == nil {
				var blk0 proto.Block
				var err0 error
				r.Eval()
				if p := core.Recover(func() { err0 = blk0.DecodeBlock(proto.NewReader(bytes.NewReader(w0.B)), bc.Rev, target) }); p != "" {
					r.Violation("panic:zero-row-block-after-accepted-block:"+panicSite(p), p, cs())
				} else if err0 == nil && dst.Col().Rows() != 0 {
					r.Violation("inconsistent:rows:zero-row-block-after-accepted-block", fmt.Sprintf("%s/%s decoding %s: a zero-row block decoded into the same targets without error, the column still reports %d rows", regime, kind, bc.TS, dst.Col().Rows()), cs())
				}
				r.Count("zero_row_followups", 1)
			}
		}
	}
	return "ok"
}

// c06DecodeCompressed decodes data as a compressed stream holding the block.
func c06DecodeCompressed(r *core.Run, kind string, bc *blockCase, data []byte, allocLimit uint64) string {
	fr := &fusedReader{r: bytes.NewReader(data)}
	rd := proto.NewReader(fr)
	rd.EnableCompression()
	_, res, err := bc.targets()
	if err != nil {
		return "skip"
	}
	cs := map[string]any{"regime": "flood", "mutation": kind, "case": bc.Desc(), "decoder": "typed/compressed", "input": clipN(data, 4096)}
	r.Eval()
	var blk proto.Block
	var derr error
	before := allocBytes()
	p := core.Recover(func() { derr = blk.DecodeBlock(rd, bc.Rev, res) })
	delta := allocBytes() - before
	if p != "" {
		r.Violation("panic:compressed:"+panicSite(p), fmt.Sprintf("flood/%s decoding %s inside a compressed frame: %s", kind, bc.TS, p), cs)
		return "panic"
	}
	if fr.afterEOF > 64 {
		r.Violation("reads-after-EOF", fmt.Sprintf("flood/%s: the decoder called Read %d times after EOF", kind, fr.afterEOF), cs)
	}
	// a size field within the library's 128 MiB frame limit may legitimately be allocated
	if delta > allocLimit+2*(128<<20) {
		r.Violation("allocation:flood:compressed-frame", fmt.Sprintf("flood/%s decoding %s: %d bytes allocated, err=%v", kind, bc.TS, delta, derr), cs)
	}
	if derr != nil {
		if p := core.Recover(func() { _ = derr.Error(); _ = fmt.Sprintf("%+v", derr) }); p != "" {
			r.Violation("panic:error-rendering", p, cs)
		}
		return "error"
	}
	return "ok"
}

// c06RowsPanic calls Row(i) of any column through reflection (ColAuto unwrapped) for every row.
func c06RowsPanic(col proto.ColResult, rows int) string {
	if a, ok := col.(*proto.ColAuto); ok && a.Data != nil {
		col = a.Data
	}
	m := reflect.ValueOf(col).MethodByName("Row")
	if !m.IsValid() || m.Type().NumIn() != 1 {
		return ""
	}
	return core.Recover(func() {
		for i := 0; i < rows && i < col.Rows(); i++ {
			m.Call([]reflect.Value{reflect.ValueOf(i)})
		}
	})
}

// c06BadBool: does the value (shaped like t) contain a Bool leaf whose byte is not 0 or 1?
func c06BadBool(t *ref.Type, v ref.Val) bool {
	if v.Null {
		return false
	}
	switch t.Base {
	case "Bool":
		return len(v.B) == 1 && v.B[0] > 1
	case "Array":
		for _, e := range v.L {
			if c06BadBool(t.Args[0], e) {
				return true
			}
		}
	case "Nullable", "LowCardinality":
		return c06BadBool(t.Args[0], v)
	case "Map":
		for _, p := range v.L {
			if len(p.L) == 2 && (c06BadBool(t.Args[0], p.L[0]) || c06BadBool(t.Args[1], p.L[1])) {
				return true
			}
		}
	case "Tuple":
		for i, e := range v.L {
			if i < len(t.Args) && c06BadBool(t.Args[i], e) {
				return true
			}
		}
	}
	return false
}

var hostileInts = []uint64{0, 1, 2, 127, 128, 255, 256, 65535, 65536, 65537, 1 << 20, 1<<20 + 1, 99_999_999, 100_000_000, 100_000_001, 1<<31 - 1, 1 << 31, 1<<32 - 1, 1 << 32, 1 << 40, 1<<63 - 1, 1 << 63, math.MaxUint64}

func uvarintLen(b []byte) int {
	for i := 0; i < len(b) && i < 10; i++ {
		if b[i] < 0x80 {
			return i + 1
		}
	}
	return 0
}

func putUvarint(x uint64) []byte {
	var w ref.W
	w.UVarint(x)
	return w.B
}

// mutants yields mutated copies of enc.
func c06Mutants(rng *rand.Rand, enc, other []byte, quick bool, emit func(kind string, data []byte)) {
	n := len(enc)
	small := n <= 160
	step := 1
	if !small {
		step = 1 + n/200
	}
	for off := 0; off < n; off += step {
		cls := fmt.Sprintf("@%d", offClass(off, n))
		if small {
			for bit := 0; bit < 8; bit++ {
				m := append([]byte(nil), enc...)
				m[off] ^= 1 << bit
				emit("bitflip"+cls, m)
			}
		} else {
			m := append([]byte(nil), enc...)
			m[off] ^= 1 << rng.Intn(8)
			emit("bitflip"+cls, m)
		}
		for _, v := range []byte{0x00, 0x01, 0x7f, 0x80, 0xff} {
			if enc[off] == v || (!small && rng.Intn(3) != 0) {
				continue
			}
			m := append([]byte(nil), enc...)
			m[off] = v
			emit("byte"+cls, m)
		}
		// uvarint overwrite
		if l := uvarintLen(enc[off:]); l > 0 {
			vals := hostileInts
			if !small || quick {
				vals = []uint64{hostileInts[rng.Intn(len(hostileInts))], hostileInts[rng.Intn(len(hostileInts))], hostileInts[rng.Intn(len(hostileInts))]}
			}
			for _, v := range vals {
				m := append(append(append([]byte(nil), enc[:off]...), putUvarint(v)...), enc[off+l:]...)
				emit("uvarint"+cls, m)
			}
		}
		// 64-bit little-endian overwrite
		if off+8 <= n {
			cur := binary.LittleEndian.Uint64(enc[off:])
			vals := []uint64{0, cur - 1, cur + 1, cur + 1000, 100_000_001, 1 << 31, 1 << 63, math.MaxUint64}
			if !small || quick {
				vals = []uint64{vals[rng.Intn(len(vals))], vals[rng.Intn(len(vals))]}
			}
			for _, v := range vals {
				m := append([]byte(nil), enc...)
				binary.LittleEndian.PutUint64(m[off:], v)
				emit("u64"+cls, m)
			}
		}
	}
	// splices, truncation + garbage, duplication
	for k := 0; k < 6; k++ {
		i := rng.Intn(n + 1)
		j := rng.Intn(len(other) + 1)
		emit("splice", append(append([]byte(nil), enc[:i]...), other[j:]...))
		g := make([]byte, rng.Intn(40))
		rng.Read(g)
		emit("truncate+garbage", append(append([]byte(nil), enc[:i]...), g...))
		emit("duplicate", append(append([]byte(nil), enc[:i]...), enc...))
	}
}

var c06FixedNames = []string{"", "(", ")", "()", ")(", "(()", "())", "Array", "Array()", "Array(", "Array)", "Array)(", "A)rray(", "Array(()", "Array(Array()",
	"Nullable", "Nullable()", "Nullable(Nullable(UInt8))", "Nullable(Array(UInt8))", "LowCardinality()", "LowCardinality(Nullable())", "LowCardinality(Array(String))",
	"Map", "Map()", "Map(,)", "Map(String)", "Map(String,)", "Map(,String)", "Map)(", "Map(String, String, String)", "Tuple", "Tuple()", "Tuple(,)", "Tuple( )", "Tuple(a)", "Tuple(a b c)",
	"Enum8", "Enum8()", "Enum8('a')", "Enum8('a'=)", "Enum8(=1)", "Enum8('a' = 999)", "Enum8('a' = 1, 'a' = 1)", "Enum8('a = 1)", "Enum8(' = 1)", "Enum16('a' = 99999)", "Enum8('\\' = 1)", "Enum8)'a' = 1(",
	"DateTime(", "DateTime()", "DateTime('", "DateTime('')", "DateTime('No/Such_Zone')", "DateTime)'UTC'(", "DateTime64", "DateTime64()", "DateTime64(x)", "DateTime64(-1)", "DateTime64(10)", "DateTime64(99999999999999999999)",
	"DateTime64(3, )", "DateTime64(3,", "DateTime64(3, 'No/Such_Zone')", "DateTime64(3, UTC)", "DateTime64)3, 'UTC'(", "FixedString", "FixedString()", "FixedString(-1)", "FixedString(0)", "FixedString(x)",
	"FixedString(99999999999999999999)", "FixedString(2147483648)", "Decimal", "Decimal()", "Decimal(,)", "Decimal(0, 0)", "Decimal(77, 1)", "Decimal(5, 9)", "Decimal(9)", "Decimal(a, b)", "Decimal32()", "Decimal32(x)", "Decimal256(99)",
	"Interval", "IntervalFoo", "Point(", "Nothing(", "UInt8(", "UInt8()", "UInt8)", "String(1)", "Int128(", "\x00", "Array(\x00)", "Array(\xff\xfe)", "Nullable(\x80)"}

// c06HostileTypeNames: malformed variants of a valid type name plus the fixed list.
func c06HostileTypeNames(rng *rand.Rand, ts string) []string {
	out := append([]string(nil), c06FixedNames...)
	if i, j := strings.IndexByte(ts, '('), strings.LastIndexByte(ts, ')'); i >= 0 && j > i {
		b := []byte(ts)
		b[i], b[j] = ')', '('
		out = append(out, string(b))                     // first ( and last ) exchanged
		out = append(out, ts[:j], ts[:i]+ts[i+1:])       // unbalanced
		out = append(out, ts+")", ts[:i+1]+"("+ts[i+1:]) // one too many
		out = append(out, ts[:i]+"()", ts[:i]+")(", ts[:i]+"(,)", ts[:i]+"( )")
		swap := strings.NewReplacer("(", ")", ")", "(").Replace(ts)
		out = append(out, swap) // every parenthesis reversed
		g := make([]byte, 1+rng.Intn(12))
		rng.Read(g)
		out = append(out, ts[:i+1]+string(g)+")", ts[:i+1]+string(g))
		// parameters cut at a random position
		if j > i+1 {
			c := i + 1 + rng.Intn(j-i-1)
			out = append(out, ts[:c]+")", ts[:c])
		}
	} else {
		out = append(out, ts+"(", ts+")", ts+"()", ts+")(", ts+"(1)")
	}
	// nesting depth
	for _, d := range []int{50, 2000} {
		out = append(out, strings.Repeat("Array(", d)+"UInt8"+strings.Repeat(")", d), strings.Repeat("Nullable(", d)+ts, strings.Repeat("Array(", d))
	}
	return out
}

func c06NameClass(name string) string {
	switch {
	case len(name) > 200:
		return "deep"
	case strings.IndexByte(name, ')') >= 0 && strings.IndexByte(name, ')') < strings.IndexByte(name, '('):
		return "reversed"
	case strings.Count(name, "(") != strings.Count(name, ")"):
		return "unbalanced"
	}
	return "balanced:" + name
}

func offClass(off, n int) int {
	switch {
	case off < 8:
		return off
	case off < 32:
		return 8 + off/8
	default:
		return 12 + off*8/(n+1)
	}
}

func c06(r *core.Run) {
	var ci int64
	quick := r.Quick()
	// ---------------- flood regime ----------------
	proto.VerifSetCaps(1<<16, 1<<20)
	nRandom := r.Pick(120, 6000)
	total := len(val.Catalogue) + nRandom
	var prev []byte
	for k := 0; k < total; k++ {
		ci++
		if !r.Take(ci) {
			continue
		}
		rng := r.Rand(ci, "c06")
		rows := []int{1, 2, 3, 5, 9}[rng.Intn(5)]
		rev := val.BlockRevisions[rng.Intn(len(val.BlockRevisions))]
		bc, err := genBlockCase(r, ci, k, rows, rev, val.GenOpt{MaxElem: 3})
		if err != nil {
			continue
		}
		if prev == nil {
			prev = bc.Bytes
		}
		var auto proto.ColAuto
		inferable := core.Recover(func() { err = auto.Infer(proto.ColumnType(bc.TS)) }) == "" && err == nil
		limit := uint64(64<<20) + 16*uint64(len(bc.Bytes))
		outcomes := map[string]int{}
		c06Mutants(rng, bc.Bytes, prev, quick, func(kind string, data []byte) {
			r.CaseLog(fmt.Sprintf("%d flood %s %s %x", ci, kind, bc.TS, clipN(data, 600)))
			dec := "typed"
			if inferable && rng.Intn(3) == 0 {
				dec = "auto"
			}
			out := c06Decode(r, "flood", kind, bc, data, dec, limit)
			outcomes[out]++
			r.NonTrivial(typeSite(bc.T), strings.SplitN(bc.Kind, ":", 2)[0], kind, dec, out)
		})
		// hostile type names in the column header (the name a server sends is not trusted): the
		// valid name with its parentheses reversed, unbalanced or emptied, parameters replaced by
		// garbage, and a fixed list of malformed names; through typed targets (whose Infer parses
		// the name) and through automatic inference
		needle := append(putUvarint(uint64(len(bc.TS))), bc.TS...)
		if at := bytes.Index(bc.Bytes, needle); at >= 0 {
			for _, name := range c06HostileTypeNames(rng, bc.TS) {
				data := append(append(append([]byte(nil), bc.Bytes[:at]...), append(putUvarint(uint64(len(name))), name...)...), bc.Bytes[at+len(needle):]...)
				for _, dec := range []string{"typed", "auto"} {
					r.CaseLog(fmt.Sprintf("%d flood type-name %s %q", ci, dec, clipN([]byte(name), 200)))
					out := c06Decode(r, "flood", "type-name", bc, data, dec, limit)
					outcomes[out]++
					r.NonTrivial("type-name", typeSite(bc.T), strings.SplitN(bc.Kind, ":", 2)[0], dec, out, c06NameClass(name))
					r.Count("hostile_type_names", 1)
				}
			}
		}
		// the same block inside a compressed frame: hostile values in the frame header (method byte
		// and both size fields, every small value and the 2^k boundaries), with and without a
		// recomputed checksum, and every mutant of the frame's first 40 bytes; decoded through the
		// compressed reader in front of DecodeBlock
		if k%3 == 0 {
			m := []c05Method{{compress.None, 0, "NONE"}, {compress.LZ4, 0, "LZ4"}, {compress.ZSTD, 0, "ZSTD"}}[(k/3)%3]
			cw := compress.NewWriter(m.Level, m.M)
			if cw.Compress(bc.Bytes) == nil && len(cw.Data) >= 25 {
				frame := append([]byte(nil), cw.Data...)
				try := func(kind string, data []byte) {
					r.CaseLog(fmt.Sprintf("%d flood compressed %s %s %x", ci, m.Name, kind, clipN(data, 200)))
					out := c06DecodeCompressed(r, kind, bc, data, limit)
					outcomes[out]++
					r.NonTrivial("compressed", m.Name, strings.SplitN(kind, "=", 2)[0], out)
				}
				for _, off := range []int{17, 21} {
					for _, v := range c05HeaderVals() {
						f := append([]byte(nil), frame...)
						binary.LittleEndian.PutUint32(f[off:], v)
						try(fmt.Sprintf("frame-u32@%d=%d", off, v), f)
						// with a checksum that matches the forged header (the check order of the reader
						// must not matter)
						end := len(f)
						if off == 17 && v >= 9 && 16+int(v) <= len(f) {
							end = 16 + int(v) // the checksum covers header + declared payload
						}
						h := city.CH128(f[16:end])
						binary.LittleEndian.PutUint64(f[0:], h.Low)
						binary.LittleEndian.PutUint64(f[8:], h.High)
						try(fmt.Sprintf("frame-u32+hash@%d=%d", off, v), f)
					}
				}
				for off := 0; off < 40 && off < len(frame); off++ {
					for _, mask := range []byte{0x01, 0x80, 0xff} {
						f := append([]byte(nil), frame...)
						f[off] ^= mask
						try(fmt.Sprintf("frame-flip@%d", off), f)
					}
				}
			}
		}
		prev = bc.Bytes
		for o, c := range outcomes {
			r.Count("flood_outcome_"+o, int64(c))
		}
		if k%40 == 0 {
			r.Sample(map[string]any{"regime": "flood", "case": bc.Desc(), "outcomes": outcomes})
		}
	}
	// reference-encoded LowCardinality blocks with every key width (the library's own encoder
	// never emits 64-bit keys, a server may)
	for _, ts := range []string{"LowCardinality(String)", "Array(LowCardinality(String))", "LowCardinality(UInt32)", "Map(LowCardinality(String), Array(String))", "LowCardinality(FixedString(8))"} {
		for _, kw := range []int{1, 2, 4, 8} {
			for k := 0; k < r.Pick(1, 6); k++ {
				ci++
				if !r.Take(ci) {
					continue
				}
				rng := r.Rand(ci, "reflc")
				sel := catalogueIndex(ts)
				bc, err := genBlockCase(r, ci*3+2, sel, 4, 54460, val.GenOpt{MaxElem: 2})
				if err != nil {
					continue
				}
				rb := &ref.Block{Rows: bc.Rows, Info: ref.BlockInfo{Bucket: -1}, Cols: []ref.Col{{Name: "v", Type: ts, Vals: bc.Vals, LC: &ref.LCOpts{KeyWidth: kw}}}}
				var w ref.W
				if err := ref.EncodeBlock(&w, 54460, rb); err != nil {
					continue
				}
				bc.Bytes = w.B
				limit := uint64(64<<20) + 16*uint64(len(bc.Bytes))
				c06Mutants(rng, bc.Bytes, bc.Bytes, false, func(kind string, data []byte) {
					r.CaseLog(fmt.Sprintf("%d flood-reflc kw=%d %s %s %x", ci, kw, kind, ts, clipN(data, 600)))
					out := c06Decode(r, "flood", kind, bc, data, []string{"typed", "auto"}[rng.Intn(2)], limit)
					r.NonTrivial("reflc", ts, kw, kind, out)
				})
				r.SetAdd("lc_key_widths", fmt.Sprint(kw*8))
			}
		}
	}
	// messages (flood)
	revs := []int{0, 50263, 51903, 54058, 54372, 54401, 54420, 54429, 54441, 54442, 54448, 54449, 54453, 54458, 54459, 54460}
	for _, rev := range revs {
		for k := 0; k < r.Pick(2, 30); k++ {
			ci++
			if !r.Take(ci) {
				continue
			}
			rng := r.Rand(ci, "msg")
			msgs := genMessages(rng, rev)
			for mi, mc := range msgs {
				other := msgs[(mi+1)%len(msgs)].Bytes
				limit := uint64(64<<20) + 16*uint64(len(mc.Bytes))
				c06Mutants(rng, mc.Bytes, other, quick, func(kind string, data []byte) {
					r.CaseLog(fmt.Sprintf("%d flood-msg %s rev=%d %s %x", ci, mc.Name, rev, kind, clipN(data, 600)))
					r.Eval()
					fr := &fusedReader{r: bytes.NewReader(data)}
					before := allocBytes()
					var derr error
					p := core.Recover(func() { _, derr = mc.Decode(fr) })
					delta := allocBytes() - before
					cs := map[string]any{"message": mc.Name, "rev": rev, "mutation": kind, "input": data}
					out := "ok"
					if p != "" {
						r.Violation("panic:message:"+mc.Name+":"+panicSite(p), fmt.Sprintf("%s rev %d %s: %s", mc.Name, rev, kind, p), cs)
						out = "panic"
					} else if derr != nil {
						out = "error"
						if p := core.Recover(func() { _ = derr.Error(); _ = fmt.Sprintf("%+v", derr) }); p != "" {
							r.Violation("panic:error-rendering", p, cs)
						}
					}
					if delta > limit {
						r.Violation("allocation:flood:message:"+mc.Name, fmt.Sprintf("%s rev %d %s: %d bytes allocated for %d input bytes", mc.Name, rev, kind, delta, len(data)), cs)
					}
					if fr.afterEOF > 64 {
						r.Violation("reads-after-EOF:message:"+mc.Name, fmt.Sprintf("%d reads after EOF", fr.afterEOF), cs)
					}
					r.NonTrivial("msg", mc.Name, rev, kind, out)
				})
			}
		}
	}
	// ---------------- cap regime ----------------
	proto.VerifSetCaps(0, 0)
	beyondRows := []uint64{100_000_001, 1 << 31, 1 << 32, 1<<63 - 1, 1 << 63, math.MaxUint64}
	beyondStr := []uint64{1<<30 + 1, 1 << 31, 1 << 32, 1 << 40, 1 << 42, 1<<63 - 1, 1 << 63, math.MaxUint64}
	capTypes := []string{"String", "Array(String)", "Array(Int32)", "Map(String, String)", "LowCardinality(String)", "Nullable(String)", "Array(Array(String))", "Array(LowCardinality(String))", "UInt64", "FixedString(512)", "JSON", "Map(String, Array(Int32))"}
	for _, ts := range capTypes {
		sel := catalogueIndex(ts)
		if sel < 0 {
			continue
		}
		for k := 0; k < r.Pick(2, 12); k++ {
			ci++
			if !r.Take(ci) {
				continue
			}
			rng := r.Rand(ci, "cap")
			bc, err := genBlockCase(r, ci*3+2, sel, 3, 54460, val.GenOpt{MaxElem: 2}) // idx%3==2 -> single column block
			if err != nil || bc.Order != 2 {
				continue
			}
			// field positions in a single-column block at rev 54460
			var hdr ref.W
			ref.EncodeBlockInfo(&hdr, ref.BlockInfo{Bucket: -1})
			offCols := len(hdr.B)
			offRows := offCols + 1
			offName := offRows + 1
			offType := offName + 1 + 1 // name "v"
			bodyStart := offType + len(putUvarint(uint64(len(bc.TS)))) + len(bc.TS) + 1
			var st ref.W
			ref.EncodeState(&st, bc.T)
			bodyStart += len(st.B)
			type patch struct {
				name string
				off  int
				kind string // uvarint | u64
				vals []uint64
			}
			patches := []patch{
				{"block-rows", offRows, "uvarint", beyondRows},
				{"block-columns", offCols, "uvarint", []uint64{1_000_001, 1 << 31, 1<<63 - 1, math.MaxUint64}},
				{"column-name-length", offName, "uvarint", beyondStr},
				{"column-type-length", offType, "uvarint", beyondStr},
			}
			switch bc.T.Base {
			case "String", "JSON":
				patches = append(patches, patch{"string-length(row0)", bodyStart, "uvarint", beyondStr})
			case "Array", "Map":
				patches = append(patches, patch{"last-offset", bodyStart + 8*(bc.Rows-1), "u64", beyondRows})
				patches = append(patches, patch{"first-offset", bodyStart, "u64", beyondRows})
			case "LowCardinality":
				patches = append(patches, patch{"lc-index-rows", bodyStart + 8, "u64", beyondRows})
			case "Nullable":
				patches = append(patches, patch{"string-length(row0)", bodyStart + bc.Rows, "uvarint", beyondStr})
			}
			for _, pt := range patches {
				if pt.off >= len(bc.Bytes) {
					continue
				}
				for _, v := range pt.vals {
					var m []byte
					if pt.kind == "uvarint" {
						l := uvarintLen(bc.Bytes[pt.off:])
						m = append(append(append([]byte(nil), bc.Bytes[:pt.off]...), putUvarint(v)...), bc.Bytes[pt.off+l:]...)
					} else {
						if pt.off+8 > len(bc.Bytes) {
							continue
						}
						m = append([]byte(nil), bc.Bytes...)
						binary.LittleEndian.PutUint64(m[pt.off:], v)
					}
					kind := fmt.Sprintf("%s=%d", pt.name, v)
					r.CaseLog(fmt.Sprintf("%d cap %s %s %x", ci, kind, bc.TS, clipN(m, 600)))
					for _, dec := range []string{"typed", "auto"} {
						out := c06Decode(r, "cap", pt.name+"@beyond-cap", bc, m, dec, 4<<20)
						if out == "ok" {
							r.Violation("cap:beyond-cap-accepted:"+pt.name, fmt.Sprintf("%s: %s decoded without error", bc.TS, kind), map[string]any{"type": bc.TS, "field": pt.name, "value": v, "input": m})
						}
						r.NonTrivial("cap", bc.TS, pt.name, v, dec, out)
						r.SetAdd("cap_fields", pt.name)
					}
				}
			}
			_ = rng
		}
	}
	// messages: leading string length beyond the cap
	for _, rev := range []int{54460} {
		ci++
		if r.Take(ci) {
			rng := r.Rand(ci, "capmsg")
			c17Blank = true
			blank := genMessages(rng, rev)
			c17Blank = false
			for _, mc := range blank {
				for _, v := range beyondStr {
					// overwrite every uvarint position that currently holds a small value
					// with blank field values every field of the all-varint/string messages is one
					// byte long, so every offset is a field start; messages with fixed-width fields
					// are patched only at their first string length (a patch elsewhere would spill
					// continuation bytes into later length fields: within-cap garbage, not judged)
					only := map[string]int{"Query": 0, "ClientInfo": 1, "ExceptionChain": 4, "BlockInfo": -2}
					for off := 0; off < len(mc.Bytes) && off < 64; off++ {
						if o, ok := only[mc.Name]; ok && o != off {
							continue
						}
						l := uvarintLen(mc.Bytes[off:])
						if l == 0 {
							continue
						}
						m := append(append(append([]byte(nil), mc.Bytes[:off]...), putUvarint(v)...), mc.Bytes[off+l:]...)
						r.CaseLog(fmt.Sprintf("%d cap-msg %s off=%d v=%d", ci, mc.Name, off, v))
						r.Eval()
						before := allocBytes()
						var derr error
						p := core.Recover(func() { _, derr = mc.Decode(bytes.NewReader(m)) })
						delta := allocBytes() - before
						cs := map[string]any{"message": mc.Name, "rev": rev, "offset": off, "value": v, "input": m}
						if p != "" {
							r.Violation("panic:message:"+mc.Name+":"+panicSite(p), p, cs)
						}
						if delta > 4<<20 {
							r.Violation("allocation:cap:message:"+mc.Name, fmt.Sprintf("%s: varint at %d set to %d: %d bytes allocated, err=%v", mc.Name, off, v, delta, derr), cs)
						}
						r.NonTrivial("capmsg", mc.Name, off, v)
					}
				}
			}
		}
	}
}

func clipN(b []byte, n int) []byte {
	if len(b) > n {
		return b[:n]
	}
	return b
}
