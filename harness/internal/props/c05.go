package props

import (
	"bytes"
	"encoding/binary"
	"errors"
	"fmt"
	"io"
	"math/rand"
	"runtime/metrics"

	"github.com/ClickHouse/ch-go/compress"
	"github.com/ClickHouse/ch-go/proto"
	"github.com/go-faster/city"

	"verif/internal/core"
	"verif/internal/ref"
)

func init() {
	Registry["C05"] = Spec{
		Fn:          c05,
		Level:       "fault_enumeration",
		Rule:        "round trips: payload lengths 0..512 (quick) / 0..4096 (thorough) and sizes up to 2 MiB / 20 MiB x {compressible, random, zero} x {None, LZ4, LZ4HC levels 0..13, ZSTD} x frame sequences 1..8 x read sizes {1,2,3,7,16,len-1,len,len+1,random}; reference parse of every frame (layout, checksum placement, limits). Fault enumeration: every offset of every frame x masks {0x01,0x80,0xFF} (thorough: all 255 values for frames <= 128 B), reads continued after every error, each output byte attributed to a verified frame through position-tagged payloads; size fields beyond 128 MiB must be rejected with a bounded allocation delta; every value 0..24 and the 2^8 / 2^16 / 128 MiB / 2^31 / 2^32 boundaries of the compressed-size field x 10 data-size values x 5 method bytes with a bogus checksum must be answered with an error (no panic, nothing delivered). Non-trivial = frame with >=1 payload byte; distinct = (method, level, length, offset, mask)",
		Assumptions: []string{"CityHash128 (go-faster/city), pierrec/lz4 and klauspost/zstd are trusted primitives shared with the library; the frame layout is checked independently", "allocation measured with runtime/metrics /gc/heap/allocs:bytes"},
		MinDistinct: 500,
	}
}

type c05Method struct {
	M     compress.Method
	Level compress.Level
	Name  string
}

func c05Methods(all bool) []c05Method {
	ms := []c05Method{{compress.None, 0, "NONE"}, {compress.LZ4, 0, "LZ4"}, {compress.ZSTD, 0, "ZSTD"}}
	lv := []compress.Level{0, 1, 9, 12, 13}
	if all {
		lv = lv[:0]
		for l := 0; l <= 13; l++ {
			lv = append(lv, compress.Level(l))
		}
	}
	for _, l := range lv {
		ms = append(ms, c05Method{compress.LZ4HC, l, fmt.Sprintf("LZ4HC/%d", l)})
	}
	return ms
}

// tagged payload: byte j of frame k is a function of (k, j) and never zero, so every output
// byte can be attributed.
func taggedPayload(k, n int, compressible bool) []byte {
	b := make([]byte, n)
	for j := range b {
		x := uint32(k)*2654435761 + uint32(j)*40503
		if compressible {
			x = uint32(k)*7 + uint32(j/64)
		}
		b[j] = byte(x%251) + 1
	}
	return b
}

func allocBytes() uint64 {
	s := []metrics.Sample{{Name: "/gc/heap/allocs:bytes"}}
	metrics.Read(s)
	return s[0].Value.Uint64()
}

// drain reads from rd with the given read-size pattern until error; returns data and the error.
func drain(rd io.Reader, sizes []int, maxBytes int) ([]byte, error) {
	var out []byte
	buf := make([]byte, 1<<16)
	for i := 0; ; i++ {
		sz := sizes[i%len(sizes)]
		if sz <= 0 {
			sz = 1
		}
		if sz > len(buf) {
			buf = make([]byte, sz)
		}
		n, err := rd.Read(buf[:sz])
		out = append(out, buf[:n]...)
		if err != nil {
			return out, err
		}
		if len(out) > maxBytes || i > maxBytes+1000 {
			return out, fmt.Errorf("drain: runaway reader")
		}
	}
}

func c05(r *core.Run) {
	var ci int64
	methods := c05Methods(!r.Quick())
	// ---- 1. round trips, single frame, every small length ----
	maxLen := r.Pick(512, 4096)
	for _, m := range methods {
		for n := 0; n <= maxLen; n++ {
			ci++
			if !r.Take(ci) {
				continue
			}
			rng := r.Rand(ci, "rt")
			var payload []byte
			kind := n % 3
			switch kind {
			case 0:
				payload = taggedPayload(1, n, true)
			case 1:
				payload = make([]byte, n)
				rng.Read(payload)
			default:
				payload = make([]byte, n)
			}
			c05RoundTrip(r, rng, m, [][]byte{payload}, fmt.Sprintf("len=%d kind=%d", n, kind))
		}
	}
	// ---- 2. bigger sizes and frame sequences ----
	sizes := []int{1000, 4095, 4096, 4097, 65535, 65536, 65537, 1 << 20, 1<<20 + 1, 2<<20 + 17}
	if !r.Quick() {
		sizes = append(sizes, 3<<20, 8<<20, 8<<20+1, 20<<20)
	}
	for _, m := range methods {
		for _, n := range sizes {
			for kind := 0; kind < 3; kind++ {
				ci++
				if !r.Take(ci) {
					continue
				}
				rng := r.Rand(ci, "big")
				var payload []byte
				switch kind {
				case 0:
					payload = taggedPayload(2, n, true)
				case 1:
					payload = make([]byte, n)
					rng.Read(payload)
				default:
					payload = make([]byte, n)
				}
				c05RoundTrip(r, rng, m, [][]byte{payload}, fmt.Sprintf("len=%d kind=%d", n, kind))
			}
		}
		for k := 0; k < r.Pick(20, 200); k++ {
			ci++
			if !r.Take(ci) {
				continue
			}
			rng := r.Rand(ci, "seq")
			nf := 1 + rng.Intn(8)
			var ps [][]byte
			for f := 0; f < nf; f++ {
				n := []int{0, 1, 2, 15, 16, 17, 100, 1000, 5000}[rng.Intn(9)]
				ps = append(ps, taggedPayload(f+1, n, rng.Intn(2) == 0))
			}
			c05RoundTrip(r, rng, m, ps, fmt.Sprintf("sequence of %d frames", nf))
		}
	}
	// mixed-method sequences through one reader
	for k := 0; k < r.Pick(200, 3000); k++ {
		ci++
		if !r.Take(ci) {
			continue
		}
		rng := r.Rand(ci, "mixed")
		nf := 2 + rng.Intn(6)
		var stream, want []byte
		desc := ""
		for f := 0; f < nf; f++ {
			m := methods[rng.Intn(len(methods))]
			n := []int{0, 1, 16, 100, 1000, 5000, 70000}[rng.Intn(7)]
			p := taggedPayload(f+1, n, rng.Intn(3) != 0)
			w := compress.NewWriter(m.Level, m.M)
			if err := w.Compress(p); err != nil {
				r.Violation("Writer:compress-error", err.Error(), m.Name)
				continue
			}
			stream = append(stream, w.Data...)
			want = append(want, p...)
			desc += fmt.Sprintf("%s:%d ", m.Name, n)
		}
		r.Eval()
		r.NonTrivial("mixed", desc)
		got, err := drain(compress.NewReader(bytes.NewReader(stream)), []int{1 + rng.Intn(5000)}, len(want)+10)
		if !bytes.Equal(got, want) || !isEOF(err) {
			r.Violation("Reader:mixed-method-sequence", fmt.Sprintf("frames [%s]: got %d bytes (want %d), first difference at %d, final error %v", desc, len(got), len(want), firstDiff(got, want), err), desc)
		}
	}
	// ---- 3. corruption: every offset x masks ----
	for _, m := range c05Methods(false) {
		for _, n := range []int{1, 7, 64, 300} {
			for _, comp := range []bool{true, false} {
				if r.Quick() && !comp && n == 300 {
					continue
				}
				w := compress.NewWriter(m.Level, m.M)
				p0 := taggedPayload(1, n, comp)
				if err := w.Compress(p0); err != nil {
					continue
				}
				f0 := append([]byte(nil), w.Data...)
				p1 := taggedPayload(2, 40, true)
				_ = w.Compress(p1)
				f1 := append([]byte(nil), w.Data...)
				masks := []byte{0x01, 0x80, 0xFF}
				if !r.Quick() && len(f0) <= 128 {
					masks = masks[:0]
					for v := 1; v <= 255; v++ {
						masks = append(masks, byte(v))
					}
				}
				for off := 0; off < len(f0); off++ {
					ci++
					if !r.Take(ci) {
						continue
					}
					for _, mask := range masks {
						c05Corrupt(r, m, f0, f1, p0, p1, off, mask)
					}
				}
			}
		}
	}
	// ---- 4a. small and boundary values of the header's size fields ----
	for _, method := range []byte{0x02, 0x82, 0x90, 0x00, 0xff} {
		for _, raw := range c05HeaderVals() {
			ci++
			if r.Take(ci) {
				c05HeaderFields(r, method, raw)
			}
		}
	}
	// ---- 4. size fields beyond the limits ----
	for k := 0; k < r.Pick(200, 2000); k++ {
		ci++
		if !r.Take(ci) {
			continue
		}
		rng := r.Rand(ci, "oversize")
		c05Oversize(r, rng)
	}
}

// c05HeaderFields: every small value and the boundaries of both size fields of a frame header,
// for every method byte, with a checksum that cannot match: the reader must answer with an
// error (no panic, nothing delivered), whatever the order of its checks.
func c05HeaderVals() []uint32 {
	var vals []uint32
	for v := uint32(0); v <= 24; v++ {
		vals = append(vals, v)
	}
	const lim = 128 << 20
	return append(vals, 255, 256, 65535, 65536, lim-1, lim, lim+8, lim+9, lim+10, 1<<31-1, 1<<31, 1<<31+8, 1<<32-10, 1<<32-9, 1<<32-8, 1<<32-1)
}

func c05HeaderFields(r *core.Run, method byte, raw uint32) {
	const lim = 128 << 20
	{
		{
			for _, data := range []uint32{0, 1, 8, 9, 100, lim, lim + 1, 1<<31 - 1, 1 << 31, 1<<32 - 1} {
				hdr := make([]byte, 25)
				for i := 0; i < 16; i++ {
					hdr[i] = byte(0x5a + i)
				}
				hdr[16] = method
				binary.LittleEndian.PutUint32(hdr[17:], raw)
				binary.LittleEndian.PutUint32(hdr[21:], data)
				for _, tail := range []int{0, 3, 200} {
					stream := append(append([]byte(nil), hdr...), make([]byte, tail)...)
					r.Eval()
					r.NonTrivial("header-fields", method, raw, data, tail)
					cs := map[string]any{"method": method, "compressed_size_field": raw, "data_size_field": data, "bytes_after_header": tail}
					rd := compress.NewReader(bytes.NewReader(stream))
					buf := make([]byte, 64)
					var n int
					var err error
					before := allocBytes()
					if perr := core.Recover(func() { n, err = rd.Read(buf) }); perr != "" {
						r.Violation("Reader:header-field-panic", fmt.Sprintf("method %#x, compressed size field %d, data size field %d: %s", method, raw, data, perr), cs)
						continue
					}
					if err == nil || n > 0 {
						r.Violation("Reader:unverified-frame-accepted", fmt.Sprintf("method %#x, size fields %d/%d with a bogus checksum: Read returned n=%d err=%v", method, raw, data, n, err), cs)
					}
					if d := allocBytes() - before; d > 4<<20 && (raw > lim+9 || data > lim) {
						r.Violation("Reader:oversize-allocates", fmt.Sprintf("size fields %d/%d: %d bytes allocated before the error %v", raw, data, d, err), cs)
					}
				}
			}
		}
	}
	r.Count("header_field_combinations", 30)
}

func isEOF(err error) bool {
	return err != nil && (errors.Is(err, io.EOF) || containsStr(err.Error(), "EOF"))
}

func c05RoundTrip(r *core.Run, rng *rand.Rand, m c05Method, payloads [][]byte, desc string) {
	r.Eval()
	total := 0
	var stream, want []byte
	w := compress.NewWriter(m.Level, m.M)
	for _, p := range payloads {
		if perr := core.Recover(func() {
			if err := w.Compress(p); err != nil {
				panic(err)
			}
		}); perr != "" {
			r.Violation("Writer:compress-panic:"+m.Name, perr, desc)
			return
		}
		frame := w.Data
		// independent layout check of the writer's frame
		f, err := ref.ParseFrame(frame)
		if err != nil {
			r.Violation("Writer:frame-layout:"+m.Name, fmt.Sprintf("%s: reference parser rejects the frame: %v", desc, err), desc)
			return
		}
		if f.Len != len(frame) || !bytes.Equal(f.Data, p) {
			r.Violation("Writer:frame-content:"+m.Name, fmt.Sprintf("%s: frame length %d (declared %d), payload equal=%v", desc, len(frame), f.Len, bytes.Equal(f.Data, p)), desc)
			return
		}
		wantMethod := map[compress.Method]byte{compress.None: ref.MethodNone, compress.LZ4: ref.MethodLZ4, compress.LZ4HC: ref.MethodLZ4, compress.ZSTD: ref.MethodZSTD}[m.M]
		if f.Method != wantMethod {
			r.Violation("Writer:method-byte:"+m.Name, fmt.Sprintf("method byte 0x%02x", f.Method), desc)
		}
		stream = append(stream, frame...)
		want = append(want, p...)
		total += len(p)
	}
	if total > 0 {
		r.NonTrivial(m.Name, desc, len(payloads))
	}
	r.SetAdd("methods", m.Name)
	patterns := [][]int{{1}, {2}, {3}, {7}, {16}, {total - 1}, {total}, {total + 1}, {1 + rng.Intn(total+2), 1 + rng.Intn(64)}}
	if total > 20000 {
		patterns = [][]int{{4096}, {total - 1}, {total + 1}, {1 + rng.Intn(total)}, {65536}}
	}
	for _, pat := range patterns {
		got, err := drain(compress.NewReader(bytes.NewReader(stream)), pat, total+10)
		r.Eval()
		if !bytes.Equal(got, want) {
			r.Violation("Reader:roundtrip:"+m.Name, fmt.Sprintf("%s, read sizes %v: got %d bytes want %d, first difference at %d", desc, pat, len(got), len(want), firstDiff(got, want)), desc)
			return
		}
		if !isEOF(err) {
			r.Violation("Reader:end-of-stream:"+m.Name, fmt.Sprintf("%s: after the last frame the reader returned %v instead of EOF", desc, err), desc)
			return
		}
	}
	// through proto.Reader with compression enabled
	pr := proto.NewReader(bytes.NewReader(stream))
	pr.EnableCompression()
	got := make([]byte, total)
	if err := pr.ReadFull(got); err != nil || !bytes.Equal(got, want) {
		r.Violation("protoReader:roundtrip:"+m.Name, fmt.Sprintf("%s: proto.Reader.ReadFull err=%v equal=%v", desc, err, bytes.Equal(got, want)), desc)
	}
	r.Sample(map[string]any{"method": m.Name, "case": desc, "frames": len(payloads), "stream_bytes": len(stream)})
}

// c05Corrupt: stream = corrupted(f0) ++ f1. The reader must fail on f0 and never hand out a
// byte that is not the next byte of a verified frame (only f1's payload from its start is
// legitimate afterwards, and only in order).
func c05Corrupt(r *core.Run, m c05Method, f0, f1, p0, p1 []byte, off int, mask byte) {
	bad := append([]byte(nil), f0...)
	bad[off] ^= mask
	stream := append(append([]byte(nil), bad...), f1...)
	r.Eval()
	field := "payload"
	switch {
	case off < 16:
		field = "checksum"
	case off == 16:
		field = "method"
	case off < 21:
		field = "compressed-size"
	case off < 25:
		field = "data-size"
	}
	r.NonTrivial(m.Name, len(p0), off, mask)
	r.SetAdd("corrupted_fields", field)
	cs := map[string]any{"method": m.Name, "payload_len": len(p0), "offset": off, "mask": mask, "field": field}
	rd := compress.NewReader(bytes.NewReader(stream))
	buf := make([]byte, 97)
	var firstErr error
	var afterErr []byte
	var before []byte
	perr := core.Recover(func() {
		for i := 0; i < 64; i++ {
			n, err := rd.Read(buf)
			if firstErr == nil {
				before = append(before, buf[:n]...)
			} else {
				afterErr = append(afterErr, buf[:n]...)
			}
			if err != nil && firstErr == nil {
				firstErr = err
			} else if err != nil && i > 8 {
				break
			}
			if len(before)+len(afterErr) > len(p0)+len(p1)+1000 {
				break
			}
		}
	})
	if perr != "" {
		r.Violation("Reader:corrupt-panic:"+field, perr, cs)
		return
	}
	if firstErr == nil {
		r.Violation("Reader:corrupted-frame-accepted:"+field, fmt.Sprintf("%s payload %d B, byte %d ^ 0x%02x (%s): no error at all; output %d bytes", m.Name, len(p0), off, mask, field, len(before)), cs)
		return
	}
	if len(before) > 0 {
		r.Violation("Reader:data-from-corrupted-frame:"+field, fmt.Sprintf("%s payload %d B, byte %d ^ 0x%02x (%s): %d bytes were handed out before the error %v", m.Name, len(p0), off, mask, field, len(before), firstErr), cs)
		return
	}
	sizesIntact := off < 17 || off >= 25
	if sizesIntact {
		var ce *compress.CorruptedDataErr
		if !errors.As(firstErr, &ce) {
			r.Violation("Reader:not-a-corruption-error:"+field, fmt.Sprintf("%s payload %d B, byte %d ^ 0x%02x (%s): error is %v, not *compress.CorruptedDataErr", m.Name, len(p0), off, mask, field, firstErr), cs)
			return
		}
		act := city.CH128(bad[16:])
		refH := city.U128{Low: binary.LittleEndian.Uint64(bad[0:8]), High: binary.LittleEndian.Uint64(bad[8:16])}
		if ce.Actual != act || ce.Reference != refH {
			r.Violation("Reader:corruption-error-checksums:"+field, fmt.Sprintf("CorruptedDataErr carries actual=%v reference=%v, want %v / %v", ce.Actual, ce.Reference, act, refH), cs)
		}
	}
	// reads that follow the failure
	if len(afterErr) > 0 {
		if !bytes.HasPrefix(p1, afterErr) {
			zero := true
			for _, b := range afterErr {
				if b != 0 {
					zero = false
				}
			}
			cls := "stale-or-foreign-bytes"
			if zero {
				cls = "zero-bytes"
			}
			r.Violation("Reader:bytes-after-failure:"+cls, fmt.Sprintf("%s payload %d B, byte %d ^ 0x%02x (%s): after the error %v, later reads returned %d bytes that do not belong to a verified frame: %x", m.Name, len(p0), off, mask, field, firstErr, len(afterErr), clip(afterErr)), cs)
		} else {
			r.Count("resynchronised_on_next_verified_frame", 1)
		}
	}
}

func c05Oversize(r *core.Run, rng *rand.Rand) {
	hdr := make([]byte, 25)
	rng.Read(hdr[:16])
	hdr[16] = []byte{0x02, 0x82, 0x90}[rng.Intn(3)]
	const lim = 128 << 20
	var raw, data uint32
	which := rng.Intn(3)
	big := []uint32{lim + 1, lim + 10, 1 << 28, 1 << 30, 1<<31 - 1, 1 << 31, 1<<32 - 1}[rng.Intn(7)]
	small := uint32(rng.Intn(1000))
	switch which {
	case 0:
		raw, data = big, small
		if raw < lim+10 {
			raw = lim + 10
		}
	case 1:
		raw, data = small+9, big
	default:
		raw, data = big, big
		if raw < lim+10 {
			raw = lim + 10
		}
	}
	binary.LittleEndian.PutUint32(hdr[17:], raw)
	binary.LittleEndian.PutUint32(hdr[21:], data)
	body := make([]byte, 2000)
	rng.Read(body)
	stream := append(hdr, body...)
	r.Eval()
	r.NonTrivial("oversize", raw, data)
	cs := map[string]any{"compressed_size_field": raw, "data_size_field": data}
	rd := compress.NewReader(bytes.NewReader(stream))
	buf := make([]byte, 64)
	before := allocBytes()
	var n int
	var err error
	perr := core.Recover(func() { n, err = rd.Read(buf) })
	delta := allocBytes() - before
	if perr != "" {
		r.Violation("Reader:oversize-panic", perr, cs)
		return
	}
	if err == nil || n > 0 {
		r.Violation("Reader:oversize-accepted", fmt.Sprintf("size fields raw=%d data=%d: Read returned n=%d err=%v", raw, data, n, err), cs)
		return
	}
	if delta > 4<<20 {
		r.Violation("Reader:oversize-allocates", fmt.Sprintf("size fields raw=%d data=%d beyond the 128 MiB limit: %d bytes allocated before the error %v", raw, data, delta, err), cs)
	}
	r.Count("oversize_headers_rejected", 1)
}
