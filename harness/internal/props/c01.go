package props

import (
	"bytes"
	"fmt"
	"io"
	"math/rand"
	"strings"

	"github.com/ClickHouse/ch-go/proto"

	"verif/internal/core"
	"verif/internal/ref"
	"verif/internal/val"
)

func init() {
	Registry["C01"] = Spec{
		Fn:          c01,
		Level:       "exploration",
		Builds:      []string{"default", "purego"},
		Rule:        "cases = (a) every entry of the typed catalogue (real user-facing constructors: every leaf column x {plain, Array, Nullable, LowCardinality, Array(Array), Array(Nullable), Array(LowCardinality), Map(String,T), Map(T,String), Map(String,Array(T)), Map(LowCardinality(T),Array(T))}) x several row counts/value sequences/revisions, (b) seeded random compositions to depth 3 (Array/Nullable/LowCardinality/Map/Tuple, named tuples) through boxed generic composites, (c) LowCardinality dictionaries of 254..257 and 65534..65537 distinct values, (d) strings around 127/128 and 16383/16384 bytes. Each case: EncodeBlock into empty and junk-prefixed buffers, EncodeRawBlock, WriteBlock+Flush (byte equality), reference decode of the bytes, library decode into fresh typed/boxed targets and through Results.Auto() where inferable, exact consumption. Non-trivial = >=1 row and (boundary value or nesting depth >= 1); distinct = hash(type, source kind, rows, revision, value fingerprint, build)",
		Assumptions: []string{"the independent reference codec (harness/internal/ref) is the oracle for the wire format; it shares no code with proto/", "LowCardinality(Nullable(T)) dictionary layout is outside the checked space"},
		MinDistinct: 200,
	}
}

func typeSite(t *ref.Type) string {
	s := t.Base
	x := t
	for len(x.Args) > 0 && len(s) < 60 {
		x = x.Args[len(x.Args)-1]
		s += ">" + x.Base
	}
	return s
}

type c01Case struct {
	Type  string `json:"type"`
	Kind  string `json:"kind"`
	Rows  int    `json:"rows"`
	Rev   int    `json:"rev"`
	Build string `json:"build"`
	Note  string `json:"note,omitempty"`
}

func valsFingerprint(vals []ref.Val) uint64 {
	var sb strings.Builder
	for i, v := range vals {
		if i > 64 {
			break
		}
		sb.WriteString(v.String())
		sb.WriteByte(';')
	}
	return core.Hash(sb.String(), len(vals))
}

func diffVals(a, b []ref.Val) string {
	if len(a) != len(b) {
		return fmt.Sprintf("row count %d != %d", len(a), len(b))
	}
	for i := range a {
		if !a[i].Equal(b[i]) {
			return fmt.Sprintf("row %d: want %s got %s", i, a[i].String(), b[i].String())
		}
	}
	return ""
}

// encodeAllWays encodes input through every encoder path and checks the paths agree.
// Returns the canonical bytes (EncodeBlock into an empty buffer).
func encodeAllWays(r *core.Run, site string, cs any, rng *rand.Rand, rev int, input []proto.InputColumn, rows int, deterministic bool) ([]byte, bool) {
	blk := proto.Block{Columns: len(input), Rows: rows, Info: proto.BlockInfo{BucketNum: -1}}
	var b1 proto.Buffer
	if err := blk.EncodeBlock(&b1, rev, input); err != nil {
		r.Violation("encode-error:"+site, fmt.Sprintf("EncodeBlock failed: %v", err), cs)
		return nil, false
	}
	canon := append([]byte(nil), b1.Buf...)
	if !deterministic {
		return canon, true
	}
	// junk-prefixed buffer: prefix preserved, suffix identical
	pl := 1 + rng.Intn(17)
	prefix := make([]byte, pl)
	rng.Read(prefix)
	b2 := proto.Buffer{Buf: append([]byte(nil), prefix...)}
	if err := blk.EncodeBlock(&b2, rev, input); err != nil {
		r.Violation("encode-error:"+site, fmt.Sprintf("EncodeBlock (prefixed) failed: %v", err), cs)
		return canon, false
	}
	if len(b2.Buf) < pl || !bytes.Equal(b2.Buf[:pl], prefix) {
		r.Violation("buffer-prefix-modified:"+site, fmt.Sprintf("encoding into a buffer holding %d bytes changed those bytes: %x -> %x", pl, prefix, b2.Buf[:min(pl, len(b2.Buf))]), cs)
		return canon, false
	}
	if !bytes.Equal(b2.Buf[pl:], canon) {
		r.Violation("bytes-depend-on-buffer:"+site, fmt.Sprintf("bytes after a %d-byte prefix differ from bytes into an empty buffer (first diff at %d of %d)", pl, firstDiff(b2.Buf[pl:], canon), len(canon)), cs)
		return canon, false
	}
	// a used buffer: reset to length 0 (or to a short prefix) with the previous contents still in
	// its spare capacity, as the client's buffer is between packets
	for _, keep := range []int{0, 3} {
		dirty := make([]byte, len(canon)+64+keep)
		for i := range dirty {
			dirty[i] = 0xA5 ^ byte(i)
		}
		bd := proto.Buffer{Buf: dirty[:keep]}
		if err := blk.EncodeBlock(&bd, rev, input); err != nil || len(bd.Buf) < keep || !bytes.Equal(bd.Buf[keep:], canon) {
			r.Violation("bytes-depend-on-buffer:used-buffer:"+site, fmt.Sprintf("encoding into a reset buffer whose spare capacity holds old bytes differs from encoding into a fresh one (err=%v, first diff at %d of %d)", err, firstDiff(bd.Buf[min(keep, len(bd.Buf)):], canon), len(canon)), cs)
			return canon, false
		}
	}
	// raw block + info
	var b3 proto.Buffer
	if proto.FeatureBlockInfo.In(rev) {
		blk.Info.Encode(&b3)
	}
	if err := blk.EncodeRawBlock(&b3, rev, input); err != nil || !bytes.Equal(b3.Buf, canon) {
		r.Violation("EncodeRawBlock-differs:"+site, fmt.Sprintf("EncodeRawBlock(+info) != EncodeBlock (err=%v, first diff at %d)", err, firstDiff(b3.Buf, canon)), cs)
		return canon, false
	}
	// vectored path
	var sink bytes.Buffer
	w := proto.NewWriter(&sink, new(proto.Buffer))
	if err := blk.WriteBlock(w, rev, input); err != nil {
		r.Violation("WriteBlock-error:"+site, err.Error(), cs)
		return canon, false
	}
	if _, err := w.Flush(); err != nil || !bytes.Equal(sink.Bytes(), canon) {
		r.Violation("WriteBlock-differs:"+site, fmt.Sprintf("WriteBlock+Flush != EncodeBlock (err=%v, first diff at %d, lens %d/%d)", err, firstDiff(sink.Bytes(), canon), sink.Len(), len(canon)), cs)
		return canon, false
	}
	return canon, true
}

func firstDiff(a, b []byte) int {
	n := min(len(a), len(b))
	for i := 0; i < n; i++ {
		if a[i] != b[i] {
			return i
		}
	}
	return n
}

// libDecode decodes a block through the library into the given results and checks exact consumption.
func libDecode(data []byte, rev int, res proto.Result) (proto.Block, error, bool) {
	rd := proto.NewReader(bytes.NewReader(data))
	var blk proto.Block
	if err := blk.DecodeBlock(rd, rev, res); err != nil {
		return blk, err, false
	}
	_, err := rd.ReadByte()
	return blk, nil, err != nil && strings.Contains(err.Error(), io.EOF.Error())
}

func c01One(r *core.Run, idx int64, note string, mk func() (val.LibCol, error), ts string, rows, rev int, opt val.GenOpt) {
	t, err := ref.ParseType(ts)
	if err != nil {
		r.Violation("harness:type", err.Error(), ts)
		return
	}
	rng := r.Rand(idx, "vals")
	vals := val.GenColumn(rng, t, rows, opt)
	src, err := mk()
	if err != nil {
		r.Note("skipped (cannot build): " + err.Error())
		return
	}
	cs := c01Case{Type: ts, Kind: src.Kind(), Rows: rows, Rev: rev, Build: r.Build, Note: note}
	r.CaseLog(fmt.Sprintf("%d %+v", idx, cs))
	site := typeSite(t)
	r.Eval()
	if rows > 0 {
		r.NonTrivial(ts, src.Kind(), rows, rev, valsFingerprint(vals), r.Build)
	}
	r.SetAdd("type_shapes", site)
	r.SetAdd("source_kinds", strings.SplitN(src.Kind(), ":", 2)[0])
	r.Sample(cs)
	if msg := core.Recover(func() {
		for _, v := range vals {
			src.Append(v)
		}
	}); msg != "" {
		r.Violation("append-panic:"+site, msg, cs)
		return
	}
	// a second plain column makes the block multi-column
	idxCol := new(proto.ColUInt32)
	for i := 0; i < rows; i++ {
		idxCol.Append(uint32(i) * 2654435761)
	}
	input := []proto.InputColumn{{Name: "v", Data: src.Col()}, {Name: "i", Data: idxCol}}
	var canon []byte
	ok := false
	if msg := core.Recover(func() { canon, ok = encodeAllWays(r, site, cs, rng, rev, input, rows, true) }); msg != "" {
		r.Violation("encode-panic:"+site, msg, cs)
		return
	}
	if canon == nil {
		return
	}
	_ = ok
	// reference decode
	rr := &ref.R{B: canon}
	rb, err := ref.DecodeBlock(rr, rev)
	if err != nil {
		r.Violation("ref-cannot-decode:"+site, fmt.Sprintf("reference decoder rejects the library's bytes: %v", err), cs)
		return
	}
	if rr.Left() != 0 {
		r.Violation("trailing-bytes:"+site, fmt.Sprintf("%d bytes left after the block", rr.Left()), cs)
	}
	if rb.Rows != rows || len(rb.Cols) != 2 || rb.Cols[0].Name != "v" || rb.Cols[1].Name != "i" {
		r.Violation("header:"+site, fmt.Sprintf("block header decoded as rows=%d cols=%d", rb.Rows, len(rb.Cols)), cs)
		return
	}
	if rev >= ref.RevBlockInfo && (rb.Info.Bucket != -1 || rb.Info.Overflows) {
		r.Violation("block-info:"+site, fmt.Sprintf("block info %+v", rb.Info), cs)
	}
	if ht, err := ref.ParseType(rb.Cols[0].Type); err != nil || ht.Canon() != t.Canon() {
		r.Violation("type-string:"+site, fmt.Sprintf("header type %q, logical type %q (%v)", rb.Cols[0].Type, t.Canon(), err), cs)
		return
	}
	if rows > 0 {
		if d := diffVals(vals, rb.Cols[0].Vals); d != "" {
			r.Violation("wire-values:"+site, "reference decode of the library's bytes differs from the appended values: "+d, cs)
			return
		}
	}
	// library decode into a fresh target of the same construction
	dst, _ := mk()
	dIdx := new(proto.ColUInt32)
	res := proto.Results{{Name: "v", Data: dst.Col()}, {Name: "i", Data: dIdx}}
	var derr error
	var blk proto.Block
	var exact bool
	if msg := core.Recover(func() { blk, derr, exact = libDecode(canon, rev, res) }); msg != "" {
		r.Violation("decode-panic:"+site, msg, cs)
		return
	}
	if derr != nil {
		r.Violation("decode-error:"+site, fmt.Sprintf("library cannot decode its own encoding: %v", derr), cs)
		return
	}
	if !exact {
		r.Violation("decode-consumption:"+site, "decoding did not consume exactly the encoded bytes", cs)
	}
	if blk.Rows != rows || blk.Columns != 2 || dst.Col().Rows() != rows || dIdx.Rows() != rows {
		r.Violation("decode-rows:"+site, fmt.Sprintf("decoded rows=%d cols=%d target rows=%d", blk.Rows, blk.Columns, dst.Col().Rows()), cs)
		return
	}
	got := make([]ref.Val, rows)
	if msg := core.Recover(func() {
		for i := range got {
			got[i] = dst.Get(i)
		}
	}); msg != "" {
		r.Violation("row-panic:"+site, msg, cs)
		return
	}
	if d := diffVals(vals, got); d != "" {
		r.Violation("roundtrip:"+site, "decoded values differ: "+d, cs)
		return
	}
	for i := 0; i < rows; i++ {
		if dIdx.Row(i) != uint32(i)*2654435761 {
			r.Violation("roundtrip-second-column:"+site, fmt.Sprintf("second column row %d", i), cs)
			break
		}
	}
	// reflective read of the same target (checks the typed Row API against the type AST)
	if strings.HasPrefix(dst.Kind(), "boxed") {
		// boxed columns carry model values; their accessor is dst.Get (already compared)
	} else if rv, err := val.ReadCol(dst.Col(), t); err == nil {
		if d := diffVals(vals, rv); d != "" {
			r.Violation("roundtrip-reflect:"+site, "values read through Row(i) differ: "+d, cs)
		}
	} else if !strings.Contains(err.Error(), "unordered") && !strings.Contains(err.Error(), "no row accessor") {
		r.Violation("row-accessor:"+site, err.Error(), cs)
	}
	// result targets stay bound for every block of a response: the same block decoded once more
	// into the same targets must give the same values again
	if rows > 0 {
		if msg := core.Recover(func() { blk, derr, exact = libDecode(canon, rev, res) }); msg != "" {
			r.Violation("decode-panic:following-block:"+site, msg, cs)
			return
		}
		if derr != nil || !exact {
			r.Violation("decode-error:following-block:"+site, fmt.Sprintf("a second block into the same targets: err=%v, consumed exactly=%v", derr, exact), cs)
			return
		}
		var again []ref.Val
		if msg := core.Recover(func() { again = readAll(dst) }); msg != "" {
			r.Violation("row-panic:following-block:"+site, msg, cs)
			return
		}
		if d := diffVals(vals, again); d != "" {
			r.Violation("roundtrip:following-block:"+site, "a second block decoded into the same targets differs: "+d, cs)
			return
		}
	}
	// ... and a zero-row block of the same schema after it leaves every target empty
	if rows > 0 {
		var w0 ref.W
		if err := ref.EncodeBlock(&w0, rev, &ref.Block{Info: ref.BlockInfo{Bucket: -1}, Rows: 0, Cols: []ref.Col{{Name: "v", Type: rb.Cols[0].Type}, {Name: "i", Type: "UInt32"}}}); err == nil {
			if msg := core.Recover(func() { blk, derr, exact = libDecode(w0.B, rev, res) }); msg != "" {
				r.Violation("decode-panic:zero-row-block-after-rows:"+site, msg, cs)
				return
			}
			if derr != nil || !exact {
				r.Violation("decode-error:zero-row-block-after-rows:"+site, fmt.Sprintf("a zero-row block into targets that hold rows: err=%v, consumed exactly=%v", derr, exact), cs)
				return
			}
			if n, m := dst.Col().Rows(), dIdx.Rows(); n != 0 || m != 0 || blk.Rows != 0 {
				r.Violation("decode-rows:zero-row-block-after-rows:"+site, fmt.Sprintf("after a zero-row block the targets hold %d and %d rows (block reports %d)", n, m, blk.Rows), cs)
				return
			}
		}
	}
	// the other shapes of a result target: a single ResultColumn, typed and inferring (AutoResult),
	// for a one-column block at the same revision
	if msg := core.Recover(func() {
		one := proto.Block{Columns: 1, Rows: rows, Info: proto.BlockInfo{BucketNum: -1}}
		var b1 proto.Buffer
		if err := one.EncodeBlock(&b1, rev, input[:1]); err != nil {
			r.Violation("encode-error:single-column:"+site, err.Error(), cs)
			return
		}
		d2, _ := mk()
		targets := map[string]proto.Result{"ResultColumn": proto.ResultColumn{Name: "v", Data: d2.Col()}}
		var autoCol *proto.ColAuto
		if canAuto := func() (ok bool) {
			var a proto.ColAuto
			_ = core.Recover(func() { ok = a.Infer(proto.ColumnType(rb.Cols[0].Type)) == nil })
			return ok
		}(); canAuto {
			rc := proto.AutoResult("v")
			autoCol, _ = rc.Data.(*proto.ColAuto)
			targets["AutoResult"] = rc
		}
		for name, tg := range targets {
			_, err, exact := libDecode(b1.Buf, rev, tg)
			if err != nil || !exact {
				r.Violation("decode-error:"+name+":"+site, fmt.Sprintf("a one-column block into a single %s at revision %d: err=%v, consumed exactly=%v", name, rev, err, exact), cs)
				continue
			}
			if rows == 0 {
				continue
			}
			var got []ref.Val
			if name == "ResultColumn" {
				got = readAll(d2)
			} else if autoCol != nil {
				if got, err = val.ReadCol(autoCol, t); err != nil {
					continue
				}
			}
			if d := diffVals(vals, got); d != "" {
				r.Violation("roundtrip:"+name+":"+site, fmt.Sprintf("a one-column block decoded into a single %s at revision %d differs: %s", name, rev, d), cs)
			}
		}
	}); msg != "" {
		r.Violation("decode-panic:single-result-column:"+site, msg, cs)
	}
	// automatic inference
	var auto proto.ColAuto
	if core.Recover(func() { err = auto.Infer(proto.ColumnType(rb.Cols[0].Type)) }) == "" && err == nil {
		r.Count("auto_inferable_cases", 1)
		var ares proto.Results
		if msg := core.Recover(func() { blk, derr, exact = libDecode(canon, rev, ares.Auto()) }); msg != "" {
			r.Violation("auto-decode-panic:"+site, msg, cs)
			return
		}
		if derr != nil {
			r.Violation("auto-decode-error:"+site, fmt.Sprintf("Results.Auto() cannot decode: %v", derr), cs)
			return
		}
		if !exact {
			r.Violation("auto-decode-consumption:"+site, "inferred decoding did not consume exactly the encoded bytes", cs)
		}
		if len(ares) != 2 || ares[0].Name != "v" || ares[1].Name != "i" {
			r.Violation("auto-names:"+site, fmt.Sprintf("inferred results %d", len(ares)), cs)
			return
		}
		if rows > 0 {
			av, err := val.ReadCol(ares[0].Data, t)
			if err != nil {
				if !strings.Contains(err.Error(), "unordered") {
					r.Violation("auto-row-accessor:"+site, err.Error(), cs)
				}
			} else if d := diffVals(vals, av); d != "" {
				r.Violation("auto-roundtrip:"+site, "typed and inferred decoding disagree with the appended values: "+d, cs)
			}
		}
		if rows > 0 {
			if msg := core.Recover(func() { blk, derr, exact = libDecode(canon, rev, ares.Auto()) }); msg != "" {
				r.Violation("auto-decode-panic:following-block:"+site, msg, cs)
				return
			}
			if derr != nil || !exact {
				r.Violation("auto-decode-error:following-block:"+site, fmt.Sprintf("a second block into the inferred targets: err=%v, consumed exactly=%v", derr, exact), cs)
				return
			}
			if av, err := val.ReadCol(ares[0].Data, t); err == nil {
				if d := diffVals(vals, av); d != "" {
					r.Violation("auto-roundtrip:following-block:"+site, "a second block decoded into the inferred targets differs: "+d, cs)
				}
			}
		}
		if at := ares[0].Data.Type(); at.Conflicts(proto.ColumnType(rb.Cols[0].Type)) {
			r.Violation("auto-type:"+site, fmt.Sprintf("inferred column type %q conflicts with %q", at, rb.Cols[0].Type), cs)
		}
	}
}

func c01(r *core.Run) {
	var ci int64
	// (a) typed catalogue
	seqs := r.Pick(3, 12)
	for ei, e := range val.Catalogue {
		for s := 0; s < seqs; s++ {
			ci++
			if !r.Take(ci) {
				continue
			}
			e := e
			rows := val.RowCounts[(ei+s*5)%len(val.RowCounts)]
			if s == 0 {
				rows = []int{1, 3, 8, 50}[ei%4]
			}
			rev := val.BlockRevisions[(ei+s)%len(val.BlockRevisions)]
			c01One(r, ci, "catalogue", func() (val.LibCol, error) { return e.New(), nil }, e.Type, rows, rev, val.GenOpt{})
		}
	}
	// (b) random compositions through boxed composites
	n := r.Pick(700, 20000)
	for k := 0; k < n; k++ {
		ci++
		if !r.Take(ci) {
			continue
		}
		rng := r.Rand(ci, "type")
		ts := val.GenType(rng, 1+rng.Intn(3))
		t, err := ref.ParseType(ts)
		if err != nil {
			r.Violation("harness:gen-type", ts+": "+err.Error(), ts)
			continue
		}
		rows := val.RowCounts[rng.Intn(len(val.RowCounts))]
		if !r.Quick() && rng.Intn(40) == 0 {
			rows = 20000
		}
		rev := val.BlockRevisions[rng.Intn(len(val.BlockRevisions))]
		pickSeed := rng.Int63()
		c01One(r, ci, "random-composition", func() (val.LibCol, error) {
			pr := rand.New(rand.NewSource(pickSeed))
			return val.Build(t, pr.Intn)
		}, ts, rows, rev, val.GenOpt{MaxElem: 3})
	}
	// (c) dictionary sizes around the key-width boundaries
	dicts := []int{254, 255, 256, 257}
	big := []int{65535, 65536}
	if !r.Quick() {
		big = []int{65534, 65535, 65536, 65537}
	}
	lcTypes := []string{"LowCardinality(String)", "LowCardinality(UInt32)", "Array(LowCardinality(String))", "LowCardinality(FixedString(8))", "Map(LowCardinality(String), Array(String))"}
	for _, ts := range lcTypes {
		for _, d := range append(append([]int{}, dicts...), big...) {
			ci++
			if !r.Take(ci) {
				continue
			}
			if d > 1000 && strings.HasPrefix(ts, "Map") {
				continue
			}
			ts, d := ts, d
			t, _ := ref.ParseType(ts)
			rows := d + 40
			if t.Base != "LowCardinality" {
				rows = d
			}
			var mk func() (val.LibCol, error)
			found := false
			for _, e := range val.Catalogue {
				if e.Type == ts {
					e := e
					mk = func() (val.LibCol, error) { return e.New(), nil }
					found = true
					break
				}
			}
			if !found {
				mk = func() (val.LibCol, error) { return val.Build(t, nil) }
			}
			c01One(r, ci, fmt.Sprintf("dictionary-%d", d), mk, ts, rows, 54460, val.GenOpt{Dict: d, MaxElem: 2})
			r.SetAdd("dictionary_sizes", fmt.Sprint(d))
		}
	}
	// (d) long strings
	for _, ts := range []string{"String", "Array(String)", "Nullable(String)", "Map(String, String)", "LowCardinality(String)"} {
		for k := 0; k < r.Pick(3, 20); k++ {
			ci++
			if !r.Take(ci) {
				continue
			}
			ts := ts
			var mk func() (val.LibCol, error)
			for _, e := range val.Catalogue {
				if e.Type == ts {
					e := e
					mk = func() (val.LibCol, error) { return e.New(), nil }
					break
				}
			}
			c01One(r, ci, "long-strings", mk, ts, []int{5, 40, 130, 200}[k%4], val.BlockRevisions[k%len(val.BlockRevisions)], val.GenOpt{BigStr: true, MaxElem: 3})
		}
	}
}
