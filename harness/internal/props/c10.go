package props

import (
	"context"
	"errors"
	"fmt"
	"strings"
	"sync"
	"time"

	"github.com/ClickHouse/ch-go"

	"verif/internal/core"
	"verif/internal/ref"
	"verif/internal/simnet"
)

func init() {
	Registry["C10"] = Spec{
		Fn:          c10,
		Level:       "fault_enumeration",
		Rule:        "scenarios of C04 plus the handshake; for every gate of a fault-free pilot run (before/after each client write, before each server packet, inside each callback, at each internal hook point) the caller's context is cancelled (or its deadline made to pass) at that gate, inside callbacks also together with the callback returning an error of its own and with a context cancelled with a cause; during the handshake also while the addendum write is blocked by a peer that stopped reading after its hello; additionally the server stalls after k bytes of each packet (mid-packet silence, k sampled over the stream) and the context is cancelled during the stall; a context already done before the call; a peer that stops reading (blocked write); short, default (3 s) and disabled (NoTimeout) read timeouts. Oracle: the call returns (stuck-state evidence: reader blocked with no deadline armed while the context is done), the error matches the context's error, a Cancel packet is written whenever the transport is healthy (cancel / deadline / stall plans) and is the single byte 03 in its own Write call, the connection is closed exactly once, at most one further server packet is begun after the cancel instant, no library goroutine outlives the call. Non-trivial = the cancellation took effect before the scenario would have completed; distinct = (scenario, gate, action)",
		Assumptions: []string{"prompt = returns within the read timeout (100 ms here) plus a generous wall-clock watchdog (10 s) whose firing alone is inconclusive; it becomes a violation only together with stuck-state evidence (context done, reader blocked without deadline, nothing queued)"},
		MinDistinct: 200,
	}
}

func c10(r *core.Run) {
	var ci int64
	for si, sc := range scenarios {
		seed := int64(1000*si) + r.Seed
		pilot := runScenario(sc, seed, nil, 100*time.Millisecond, bgCtx)
		if !pilot.Returned || (pilot.Err != nil && !(sc.EndsExc && ch.IsException(pilot.Err))) {
			r.Violation("harness:pilot", fmt.Sprintf("pilot of %s: %v", sc.Name, pilot.Err), sc.Name)
			continue
		}
		gates := gatesOf(pilot)
		srvBytes := pilot.Sim.Conn.Delivered() - pilot.HandshakeR
		cliBytes := pilot.WrittenAtReturn - pilot.HandshakeW
		pilot.Sim.Client.Close()
		var plans []*fault
		for gi, g := range gates {
			if strings.HasPrefix(g, "cb:") {
				plans = append(plans, &fault{Kind: "cancel+callback-error", Gate: g, K: int64(gi)})
			}
			plans = append(plans, &fault{Kind: "cancel", Gate: g})
			if gi%2 == 0 || !r.Quick() {
				plans = append(plans, &fault{Kind: "deadline", Gate: g}) // the caller's deadline passes at this gate
			}
		}
		plans = append(plans, &fault{Kind: "deadline-passed"})
		// mid-packet stalls: server silent after k bytes, then cancel
		offs := byteOffsets(r, srvBytes, seed+7)
		if len(offs) > r.Pick(60, 400) {
			offs = offs[:r.Pick(60, 400)]
		}
		for _, k := range offs {
			plans = append(plans, &fault{Kind: "stall", K: k})
		}
		// peer stops reading after k client bytes
		for _, k := range []int64{0, 1, cliBytes / 2, cliBytes - 1} {
			if k >= 0 && k < cliBytes {
				plans = append(plans, &fault{Kind: "blocked-write", K: k})
			}
		}
		for _, f := range plans {
			ci++
			if !r.Take(ci) {
				continue
			}
			r.CaseLog(fmt.Sprintf("%d %s %s", ci, sc.Name, f))
			c10One(r, sc, seed, f)
		}
	}
	// a server that repeats the header block of an INSERT (input columns inferred from it): the
	// receiver is then waiting for the sender to take the column info when the context ends. The
	// gates that can be reached are taken from a run that is ended by a 300 ms deadline.
	for _, n := range []int{2, 3, 5} {
		for _, stream := range []int{0, 2} {
			sc := scn{Name: fmt.Sprintf("insert-%d-extra-headers-stream%d", n, stream), Insert: true, Stream: stream, ExtraHeaders: n}
			seed := 77000 + r.Seed + int64(n)
			pilot := runScenario(sc, seed, nil, 100*time.Millisecond, func() (context.Context, context.CancelFunc) {
				return context.WithTimeout(context.Background(), 300*time.Millisecond)
			})
			if pilot.Sim != nil && pilot.Sim.Client != nil {
				pilot.Sim.Client.Close()
			}
			if !pilot.Returned && pilot.StuckBusy {
				r.Inconclusive("pilot still computing after the extended watchdog: " + sc.Name)
				continue
			}
			if !pilot.Returned {
				r.Violation("does-not-return:deadline:extra-headers", fmt.Sprintf("scenario %s: Do did not return after its 300 ms deadline:\n%s", sc.Name, clipS2(pilot.StuckStacks, 3000)), sc.Name)
				continue
			}
			for _, g := range gatesOf(pilot, "srv:", "write:", "hook:sender:", "hook:receiver:", "cb:") {
				for _, kind := range []string{"cancel", "deadline"} {
					ci++
					if !r.Take(ci) {
						continue
					}
					f := &fault{Kind: kind, Gate: g}
					r.CaseLog(fmt.Sprintf("%d %s %s", ci, sc.Name, f))
					c10One(r, sc, seed, f)
				}
			}
		}
	}
	// handshake cancellation
	for k := 0; k < r.Pick(400, 4000); k++ {
		ci++
		if !r.Take(ci) {
			continue
		}
		c10Handshake(r, ci, k)
	}
}

func c10One(r *core.Run, sc scn, seed int64, f *fault) {
	var cancelAt time.Time
	mk := func() (context.Context, context.CancelFunc) {
		var ctx context.Context
		var cancel context.CancelFunc
		if f.Kind == "deadline" {
			ctx, cancel = newManualDeadlineCtx()
		} else if f.Kind == "cancel+callback-error" && f.K%2 == 1 {
			// cancelled with a cause: ctx.Err() is still context.Canceled, which is what must match
			c2, cc := context.WithCancelCause(context.Background())
			ctx, cancel = c2, func() { cc(errors.New("the caller's own reason")) }
		} else {
			ctx, cancel = context.WithCancel(context.Background())
		}
		return ctx, func() {
			if cancelAt.IsZero() {
				cancelAt = time.Now()
			}
			cancel()
		}
	}
	var o *runOut
	desc0 := ""
	switch f.Kind {
	case "stall", "blocked-write":
		o = runStall(sc, seed, f)
		cancelAt = o.FiredWall
	default:
		// read timeouts: short, the library default (Options.ReadTimeout = 0) and none at all
		rt := []time.Duration{100 * time.Millisecond, 0, ch.NoTimeout}[int(hashStrings([]string{sc.Name, f.String()})%3)]
		desc0 = fmt.Sprintf("read timeout %v", rt)
		o = runScenario(sc, seed, f, rt, mk)
	}
	r.Eval()
	desc := map[string]any{"scenario": sc.Name, "fault": f.String(), "seed": seed, "options": desc0}
	fail := func(class, msg string) {
		r.Violation(class, fmt.Sprintf("%s [scenario %s, %s]", msg, sc.Name, f), desc)
	}
	if o.Sim == nil || o.Sim.Client == nil {
		fail("harness:handshake", fmtErr(o.Err))
		return
	}
	cl := o.Sim.Client
	conn := o.Sim.Conn
	defer cl.Close()
	if !o.Returned && !o.Fired && sc.ExtraHeaders > 0 {
		// the cancellation was never issued (gate not reached in this schedule) and this server
		// never ends the query: nothing to judge
		r.Count("gate_not_reached", 1)
		conn.Close()
		return
	}
	if !o.Returned && o.StuckBusy {
		r.Inconclusive(fmt.Sprintf("%s %s: Do still computing after the extended watchdog (no stuck state)", sc.Name, f))
		conn.Close()
		return
	}
	if !o.Returned {
		n, armed := o.StuckReaders, o.StuckArmed
		if n > 0 && !armed && o.StuckQueue == 0 {
			fail("does-not-return:"+f.Kind+":reader-blocked-without-deadline", fmt.Sprintf("context done but Do is still blocked: %d reader(s) blocked in Read with no deadline armed and nothing queued (cancel-watch waits for the receiver)", n))
		} else {
			fail("does-not-return:"+f.Kind, fmt.Sprintf("Do did not return (blocked readers %d, deadline armed %v, queued %d):\n%s", n, armed, o.StuckQueue, clipS2(o.StuckStacks, 3000)))
		}
		conn.Close()
		return
	}
	if !o.Fired {
		r.Count("gate_not_reached", 1)
		return
	}
	if o.Err == nil || (sc.EndsExc && ch.IsException(o.Err)) {
		r.Count("cancelled_after_completion", 1)
		return
	}
	r.NonTrivial(sc.Name, f.String())
	r.SetAdd("hook_orders", fmt.Sprintf("%016x", hookSignature(o.Hooks)))
	if !isCtxErr(o.Err) {
		// the scenario may have failed for the cancel's side effects only if it carries the context error
		fail("error-does-not-match-context:"+f.Kind, fmt.Sprintf("Do returned %q, which is neither context.Canceled nor DeadlineExceeded", firstLineOf(o.Err.Error())))
	}
	if !cl.IsClosed() || !conn.Closed() {
		evs := conn.Events()
		tail := ""
		for i := len(evs) - 1; i >= 0 && i > len(evs)-14; i-- {
			tail = fmt.Sprintf("%s(%s n=%d err=%s) ", evs[i].Op, evs[i].Gate, evs[i].N, evs[i].Err) + tail
		}
		desc["last_conn_events"] = tail
		desc["hooks"] = o.Hooks
		desc["gates"] = o.Gates
		desc["error"] = o.Err.Error()
		fail("connection-not-closed:"+f.Kind, fmt.Sprintf("after cancellation the client is closed=%v, connection closed=%v", cl.IsClosed(), conn.Closed()))
	}
	if n := conn.CloseCalls(); n > 1 {
		fail("closed-more-than-once", fmt.Sprintf("%d Close calls on the connection", n))
	}
	// Cancel packet: any Write call after the cancel instant that starts with 03 or is tiny must be exactly [03]
	evs := conn.Events()
	cancelWrites := 0
	for _, e := range evs {
		if e.Op != "write" || len(e.Data) == 0 {
			continue
		}
		if len(e.Data) <= 2 && (e.Data[len(e.Data)-1] == ref.ClientCancelCode) {
			cancelWrites++
			if len(e.Data) != 1 {
				fail("cancel-packet-malformed", fmt.Sprintf("the cancel path wrote % x instead of the single byte 03", e.Data))
			}
		}
	}
	if cancelWrites > 1 {
		fail("cancel-packet-repeated", fmt.Sprintf("%d Cancel packets written", cancelWrites))
	}
	r.Count("cancel_packets_seen", int64(cancelWrites))
	if cancelWrites == 0 && (f.Kind == "cancel" || f.Kind == "deadline" || f.Kind == "stall") {
		// best effort means: written whenever the transport accepts writes, which it does in these plans
		fail("no-cancel-packet:"+f.Kind, fmt.Sprintf("the query was cancelled on a healthy transport (%s) but no Cancel packet was written before the connection was closed", desc0))
	}
	if leaked := leakedLibraryGoroutines(); len(leaked) > 0 {
		fail("goroutine-leak:"+f.Kind, fmt.Sprintf("%d library goroutines outlive the call:\n%s", len(leaked), clipS(leaked[0])))
	}
	if !cancelAt.IsZero() {
		if d := o.ReturnWall.Sub(cancelAt); d > 3*time.Second {
			// wall clock only feeds the evidence; a slow return alone is inconclusive
			r.Inconclusive(fmt.Sprintf("%s/%s returned %s after the cancel", sc.Name, f, d))
		}
	}
}

// runStall: the server stalls after K bytes of its response (or stops reading after K client
// bytes); once the library is quiescent the context is cancelled.
func runStall(sc scn, seed int64, f *fault) *runOut {
	ctx, cancel := context.WithCancel(context.Background())
	var out *runOut
	fired := make(chan struct{})
	go func() {
		// cancel once the client is parked: a reader blocked with nothing queued (or a blocked writer)
		deadline := time.Now().Add(5 * time.Second)
		for time.Now().Before(deadline) {
			time.Sleep(2 * time.Millisecond)
			if out != nil && out.Sim != nil && out.Sim.Client != nil {
				n, _ := out.Sim.Conn.BlockedReaders()
				if f.Kind == "stall" && n > 0 && out.Sim.Conn.Delivered()-out.HandshakeR >= f.K {
					break
				}
				if f.Kind == "blocked-write" && out.Sim.Conn.WrittenBytes()-out.HandshakeW >= f.K {
					time.Sleep(20 * time.Millisecond)
					break
				}
			}
		}
		if out != nil {
			out.FiredWall = time.Now()
		}
		cancel()
		close(fired)
	}()
	ff := &fault{Kind: "stall-setup", K: f.K}
	if f.Kind == "blocked-write" {
		ff.Kind = "blocked-write-setup"
	}
	out = runScenarioWith(sc, seed, ff, 100*time.Millisecond, func() (context.Context, context.CancelFunc) { return ctx, cancel }, func(o *runOut) { out = o })
	<-fired
	out.Fired = true
	return out
}

func c10Handshake(r *core.Run, ci int64, k int) {
	// cancel during the handshake: before the hello is answered (server silent) or mid-hello
	script := &simnet.Script{Rev: 54460}
	sim := newSim(script)
	cut := k % 30
	script.Hello = func(ref.ClientHello) []simnet.Item {
		b := sim.Srv.ServerHelloBytes(54460)
		if cut == 0 || cut >= len(b) {
			return nil // silence
		}
		return []simnet.Item{{Data: b[:cut]}} // partial hello, then silence
	}
	if k%3 == 1 {
		sim.Conn.BlockWritesAfter = int64(k % 5) // the peer does not even read the client hello
	}
	addendumBlocked := k%7 == 3
	if addendumBlocked {
		// the whole hello arrives, then the peer stops reading: the client's next write (the
		// addendum) blocks, and the context ends while it does
		cut = -1
		script.Hello = func(ref.ClientHello) []simnet.Item {
			return []simnet.Item{{Data: sim.Srv.ServerHelloBytes(54460)}}
		}
		sim.Conn.BlockWritesAfter = -1
		sim.Conn.OnGate = func(g string) {
			if g == "write:before:1" {
				w := sim.Conn.WrittenBytes()
				sim.Conn.Locked(func() { sim.Conn.BlockWritesAfter = w })
			}
		}
	}
	ctx, cancel := context.WithCancel(context.Background())
	useDeadline := k%2 == 0
	if useDeadline {
		cancel()
		ctx, cancel = context.WithTimeout(context.Background(), 30*time.Millisecond)
	}
	defer cancel()
	var client *ch.Client
	var err error
	go func() {
		time.Sleep(15 * time.Millisecond)
		if !useDeadline {
			cancel()
		}
	}()
	ok := runWithStuckWatchdog(10*time.Second, func() {
		// the handshake timeout must not be what ends a cancelled handshake
		client, err = ch.Connect(ctx, sim.Conn, ch.Options{ReadTimeout: 50 * time.Millisecond, HandshakeTimeout: time.Hour})
	})
	r.Eval()
	desc := map[string]any{"hello_bytes_before_silence": cut, "deadline": useDeadline, "peer_not_reading": k%3 == 1, "addendum_write_blocked": addendumBlocked}
	r.NonTrivial("handshake", cut, useDeadline, k%3 == 1, addendumBlocked)
	fail := func(class, msg string) {
		r.Violation(class, fmt.Sprintf("%s [handshake, hello cut at %d, deadline=%v]", msg, cut, useDeadline), desc)
	}
	if !ok {
		fail("handshake-does-not-return", "Connect did not return after the context was done:\n"+clipS(strings.Join(libraryGoroutines(), "\n---\n")))
		sim.Conn.Close()
		return
	}
	if err == nil {
		fail("handshake-cancel-ignored", "Connect succeeded although the context was cancelled before the hello arrived")
		client.Close()
		return
	}
	if !isCtxErr(err) {
		fail("handshake-error-does-not-match-context", "Connect returned "+firstLineOf(err.Error()))
	}
	if !sim.Conn.Closed() {
		fail("handshake-connection-not-closed", "the connection was not closed after the cancelled handshake")
	}
	if leaked := leakedLibraryGoroutines(); len(leaked) > 0 {
		fail("goroutine-leak:handshake", fmt.Sprintf("%d library goroutines outlive Connect:\n%s", len(leaked), clipS(leaked[0])))
	}
	_ = errors.Is
}

// manualDeadlineCtx is a context with a (far) deadline whose expiry is triggered by the test:
// after trigger() its Err() is context.DeadlineExceeded, as if the caller's deadline had passed.
type manualDeadlineCtx struct {
	done chan struct{}
	once sync.Once
	dl   time.Time
	mu   sync.Mutex
	err  error
}

func newManualDeadlineCtx() (context.Context, context.CancelFunc) {
	c := &manualDeadlineCtx{done: make(chan struct{}), dl: time.Now().Add(time.Hour)}
	return c, func() {
		c.once.Do(func() {
			c.mu.Lock()
			c.err = context.DeadlineExceeded
			c.mu.Unlock()
			close(c.done)
		})
	}
}

func (c *manualDeadlineCtx) Deadline() (time.Time, bool) { return c.dl, true }
func (c *manualDeadlineCtx) Done() <-chan struct{}       { return c.done }
func (c *manualDeadlineCtx) Value(any) any               { return nil }
func (c *manualDeadlineCtx) Err() error {
	c.mu.Lock()
	defer c.mu.Unlock()
	return c.err
}
