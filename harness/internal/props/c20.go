package props

import (
	"fmt"
	"math"
	"math/big"
	"net/netip"
	"time"

	"github.com/ClickHouse/ch-go/proto"

	"verif/internal/core"
)

// ---- independent civil calendar (no time package): days since 1970-01-01 <-> y/m/d ----

func civilFromDays(z int64) (y int64, m, d int) {
	z += 719468
	era := z / 146097
	if z < 0 {
		era = (z - 146096) / 146097
	}
	doe := z - era*146097
	yoe := (doe - doe/1460 + doe/36524 - doe/146096) / 365
	y = yoe + era*400
	doy := doe - (365*yoe + yoe/4 - yoe/100)
	mp := (5*doy + 2) / 153
	d = int(doy - (153*mp+2)/5 + 1)
	if mp < 10 {
		m = int(mp + 3)
	} else {
		m = int(mp - 9)
	}
	if m <= 2 {
		y++
	}
	return
}

func daysFromCivil(y int64, m, d int) int64 {
	if m <= 2 {
		y--
	}
	era := y / 400
	if y < 0 {
		era = (y - 399) / 400
	}
	yoe := y - era*400
	mm := int64(m)
	var doy int64
	if mm > 2 {
		doy = (153*(mm-3)+2)/5 + int64(d) - 1
	} else {
		doy = (153*(mm+9)+2)/5 + int64(d) - 1
	}
	doe := yoe*365 + yoe/4 - yoe/100 + doy
	return era*146097 + doe - 719468
}

func civilString(days int64) string {
	y, m, d := civilFromDays(days)
	return fmt.Sprintf("%04d-%02d-%02d", y, m, d)
}

func floorDiv(a, b int64) int64 {
	q := a / b
	if (a%b != 0) && ((a < 0) != (b < 0)) {
		q--
	}
	return q
}

func c20Zones(quick bool) []int {
	var z []int
	if quick {
		for _, h := range []float64{-12, -9.5, -1, 0, 1, 5.5, 14} {
			z = append(z, int(h*3600))
		}
		return z
	}
	for o := -12 * 3600; o <= 14*3600; o += 1800 {
		z = append(z, o)
	}
	return z
}

var c20LocalTimes = [][3]int{{0, 0, 0}, {12, 0, 0}, {23, 59, 59}}

func init() {
	Registry["C20"] = Spec{
		Fn:          c20,
		Level:       "exploration",
		Rule:        "sub-spaces enumerated per chunk: every Date (65536) and every Date32 day 1900-01-01..2299-12-31 x fixed zones x 3 local times; DateTime boundaries+strided (quick) / all 2^32 (thorough); DateTime64 p=0..9 boundary/random instants of the documented range; wide-int From*/accessor pairs on boundary+random; IPv4 strided (quick) / all 2^32 (thorough); Interval.Add against an independent civil calendar (counts -1000..1000 in UTC; day and week counts up to the width of the 1900..2299 range; calendar days in Europe/Berlin, America/New_York and Australia/Sydney when the zone database is present); the time conversions again through the column methods (ColDateTime64 p=0..9 Append / AppendArr / Array().Append / Row with a location, ColDateTime, ColDate, ColDate32 Append / AppendArr) against arithmetic of the harness. Non-trivial = value other than 0; distinct = (sub-space, value) fingerprints",
		Assumptions: []string{"oracle is an independent days<->civil implementation cross-checked against package time on every Date/Date32 day", "Go's time.Time arithmetic (Unix, Date, AddDate) is trusted for constructing inputs"},
		MinDistinct: 1000,
		Exhaustive:  func(tier string) bool { return true },
	}
}

func c20(r *core.Run) {
	quick := r.Quick()
	zones := c20Zones(quick)
	var ci int64
	next := func() bool { ci++; return r.Take(ci) }

	// --- calendar self-check against package time (every Date32 day) ---
	if next() {
		for d := int64(-25567); d <= 120529; d++ {
			tt := time.Unix(d*86400, 0).UTC()
			y, m, dd := civilFromDays(d)
			if int(y) != tt.Year() || m != int(tt.Month()) || dd != tt.Day() || daysFromCivil(y, m, dd) != d {
				r.Violation("harness:civil-calendar", fmt.Sprintf("independent calendar disagrees with package time on day %d", d), nil)
				break
			}
		}
		r.Eval()
	}

	// --- Date: all 65536 values ---
	const chunk = 4096
	for lo := int64(0); lo < 65536; lo += chunk {
		if !next() {
			continue
		}
		for d := lo; d < lo+chunk; d++ {
			v := proto.Date(d)
			r.Eval()
			if d != 0 {
				r.NonTrivial("Date", d)
			}
			if got := proto.ToDate(v.Time()); got != v {
				r.Violation("Date:roundtrip", fmt.Sprintf("ToDate(Date(%d).Time()) = %d", d, got), d)
			}
			if s := v.String(); s != civilString(d) {
				r.Violation("Date:String", fmt.Sprintf("Date(%d).String() = %s, civil = %s", d, s, civilString(d)), d)
			}
			y, m, dd := civilFromDays(d)
			if got := proto.NewDate(int(y), time.Month(m), dd); got != v {
				r.Violation("Date:NewDate", fmt.Sprintf("NewDate(%d,%d,%d) = %d want %d", y, m, dd, got, d), d)
			}
			for _, off := range zones {
				loc := time.FixedZone("z", off)
				for _, lt := range c20LocalTimes {
					// ToDate documents IsZero -> 0; skip nothing else.
					tt := time.Date(int(y), time.Month(m), dd, lt[0], lt[1], lt[2], 0, loc)
					r.Eval()
					if got := proto.ToDate(tt); got != v {
						r.Violation("ToDate:local-calendar-day", fmt.Sprintf("ToDate(%s) = %d (%s), local calendar day is %d (%s)", tt.Format(time.RFC3339), got, civilString(int64(got)), d, civilString(d)), map[string]any{"day": d, "offset": off, "time": lt})
					}
				}
			}
		}
		r.Sample(map[string]any{"subspace": "Date", "from": lo, "to": lo + chunk - 1, "zones": len(zones), "local_times": c20LocalTimes})
	}

	// --- Date32: every day 1900-01-01..2299-12-31 ---
	for lo := int64(-25567); lo <= 120529; lo += chunk {
		if !next() {
			continue
		}
		for d := lo; d < lo+chunk && d <= 120529; d++ {
			v := proto.Date32(d)
			r.Eval()
			r.NonTrivial("Date32", d)
			if got := proto.ToDate32(v.Time()); got != v {
				r.Violation("Date32:roundtrip", fmt.Sprintf("ToDate32(Date32(%d).Time()) = %d", d, got), d)
			}
			if s := v.String(); s != civilString(d) {
				r.Violation("Date32:String", fmt.Sprintf("Date32(%d).String() = %s, civil = %s", d, s, civilString(d)), d)
			}
			y, m, dd := civilFromDays(d)
			if got := proto.NewDate32(int(y), time.Month(m), dd); got != v {
				r.Violation("Date32:NewDate32", fmt.Sprintf("NewDate32(%d,%d,%d) = %d want %d", y, m, dd, got, d), d)
			}
			for _, off := range zones {
				loc := time.FixedZone("z", off)
				for _, lt := range c20LocalTimes {
					tt := time.Date(int(y), time.Month(m), dd, lt[0], lt[1], lt[2], 0, loc)
					r.Eval()
					if got := proto.ToDate32(tt); got != v {
						cls := "post-epoch"
						if tt.Unix()+int64(off) < 0 {
							cls = "pre-epoch"
						}
						r.Violation("ToDate32:local-calendar-day:"+cls, fmt.Sprintf("ToDate32(%s) = %d (%s), local calendar day is %d (%s)", tt.Format(time.RFC3339), got, civilString(int64(got)), d, civilString(d)), map[string]any{"day": d, "offset": off, "time": lt})
					}
				}
			}
		}
		r.Sample(map[string]any{"subspace": "Date32", "from": lo, "zones": len(zones)})
	}

	// --- DateTime ---
	{
		const parts = 256
		span := uint64(1<<32) / parts
		for p := uint64(0); p < parts; p++ {
			if !next() {
				continue
			}
			check := func(x uint64) {
				v := proto.DateTime(x)
				r.Eval()
				tt := v.Time()
				if tt.Unix() != int64(x) {
					r.Violation("DateTime:Time", fmt.Sprintf("DateTime(%d).Time().Unix() = %d", x, tt.Unix()), x)
				}
				if got := proto.ToDateTime(tt); got != v {
					r.Violation("DateTime:roundtrip", fmt.Sprintf("ToDateTime(DateTime(%d).Time()) = %d", x, got), x)
				}
				if got := proto.ToDateTime(tt.In(time.FixedZone("z", 5*3600+1800))); got != v {
					r.Violation("DateTime:roundtrip-zone", fmt.Sprintf("ToDateTime(DateTime(%d).Time() in +05:30) = %d", x, got), x)
				}
			}
			lo, hi := p*span, (p+1)*span
			if quick {
				rng := r.Rand(int64(p), "dt")
				for _, x := range []uint64{lo, lo + 1, hi - 1} {
					check(x)
					r.NonTrivial("DateTime", x)
				}
				for k := 0; k < 16384; k++ {
					x := lo + uint64(rng.Int63n(int64(span)))
					check(x)
					if k < 64 {
						r.NonTrivial("DateTime", x)
					}
				}
			} else {
				for x := lo; x < hi; x++ {
					check(x)
				}
				r.NonTrivial("DateTime-range", lo, hi)
				r.Count("datetime_values_enumerated", int64(span))
			}
		}
	}

	// --- DateTime64 ---
	{
		const minSec, maxSec = int64(-2208988800), int64(10413791999) // 1900-01-01 .. 2299-12-31 23:59:59
		for p := 0; p <= 9; p++ {
			if !next() {
				continue
			}
			prec := proto.Precision(p)
			pow := int64(1)
			for i := 0; i < p; i++ {
				pow *= 10
			}
			tickNs := int64(1e9) / pow
			lim := new(big.Int).SetInt64(math.MaxInt64)
			fits := func(sec int64) bool {
				b := new(big.Int).Mul(big.NewInt(sec), big.NewInt(pow))
				b.Abs(b)
				b.Add(b, big.NewInt(pow))
				return b.Cmp(lim) < 0
			}
			rng := r.Rand(int64(p), "dt64")
			var secs []int64
			for _, s := range []int64{minSec, minSec + 1, -86400*365*70 - 1, -2, -1, 0, 1, 2, 1 << 31, 1<<32 - 1, 1 << 32,
				9223372036, 9223372037, -9223372036, -9223372037, 9783072000 /*2280-01-01*/, maxSec - 1, maxSec} {
				secs = append(secs, s)
			}
			n := r.Pick(4000, 200000)
			for i := 0; i < n; i++ {
				secs = append(secs, minSec+rng.Int63n(maxSec-minSec+1))
			}
			for _, sec := range secs {
				if !fits(sec) {
					r.Count("dt64_skipped_unrepresentable", 1)
					continue
				}
				var nsecs []int64
				nsecs = append(nsecs, 0, tickNs*(rng.Int63n(pow)), 999999999, 1, rng.Int63n(1e9))
				for _, ns := range nsecs {
					tt := time.Unix(sec, ns).UTC()
					r.Eval()
					r.NonTrivial("DateTime64", p, sec, ns)
					got := proto.ToDateTime64(tt, prec)
					want := sec*pow + ns/tickNs // floor for ns>=0
					representable := ns%tickNs == 0
					era := "1678..2262"
					if sec > 9223372036 || sec < -9223372036 {
						era = "outside-UnixNano-range"
					}
					if representable && int64(got) != want {
						r.Violation(fmt.Sprintf("ToDateTime64:exact:%s", era), fmt.Sprintf("ToDateTime64(%s, p=%d) = %d, want %d", tt.Format(time.RFC3339Nano), p, got, want), map[string]any{"sec": sec, "nsec": ns, "p": p})
					} else if !representable {
						if d := int64(got) - want; d < 0 || d > 1 {
							r.Violation(fmt.Sprintf("ToDateTime64:within-tick:%s", era), fmt.Sprintf("ToDateTime64(%s, p=%d) = %d, more than one tick from %d", tt.Format(time.RFC3339Nano), p, got, want), map[string]any{"sec": sec, "nsec": ns, "p": p})
						}
					}
					// back: raw -> time
					raw := proto.DateTime64(want)
					back := raw.Time(prec)
					wsec, wns := sec, (ns/tickNs)*tickNs
					if back.Unix() != wsec || int64(back.Nanosecond()) != wns {
						r.Violation(fmt.Sprintf("DateTime64.Time:%s", era), fmt.Sprintf("DateTime64(%d).Time(p=%d) = %s, want unix %d.%09d", want, p, back.UTC().Format(time.RFC3339Nano), wsec, wns), map[string]any{"raw": want, "p": p})
					} else if rt := proto.ToDateTime64(back, prec); rt != raw {
						r.Violation(fmt.Sprintf("DateTime64:roundtrip:%s", era), fmt.Sprintf("ToDateTime64(DateTime64(%d).Time(p=%d)) = %d", want, p, rt), map[string]any{"raw": want, "p": p})
					}
				}
			}
			r.Sample(map[string]any{"subspace": "DateTime64", "precision": p, "instants": len(secs) * 5})
		}
	}

	// --- the same conversions through the column methods (Append, AppendArr, Array().Append, Row) ---
	for p := 0; p <= 9; p++ {
		if !next() {
			continue
		}
		c20TimeColumns(r, p, zones)
	}

	// --- wide integers ---
	if next() {
		rng := r.Rand(0, "wide")
		var ints []int64
		for _, v := range []int64{0, 1, -1, 2, -2, math.MaxInt64, math.MinInt64, math.MaxInt32, math.MinInt32, 1 << 32, -(1 << 32)} {
			ints = append(ints, v)
		}
		n := r.Pick(200000, 10000000)
		for i := 0; i < n; i++ {
			ints = append(ints, int64(rng.Uint64()))
		}
		two64 := new(big.Int).Lsh(big.NewInt(1), 64)
		for _, v := range ints {
			r.Eval()
			if len(ints) < 100 || v%97 == 0 {
				r.NonTrivial("wide", v)
			}
			i128 := proto.Int128FromInt(int(v))
			if i128.Int() != int(v) {
				r.Violation("Int128FromInt:Int", fmt.Sprintf("Int128FromInt(%d).Int() = %d", v, i128.Int()), v)
			}
			// two's complement layout
			want := new(big.Int).SetInt64(v)
			if v < 0 {
				want.Add(want, new(big.Int).Lsh(big.NewInt(1), 128))
			}
			got := new(big.Int).Add(new(big.Int).Mul(new(big.Int).SetUint64(i128.High), two64), new(big.Int).SetUint64(i128.Low))
			if got.Cmp(want) != 0 {
				r.Violation("Int128FromInt:layout", fmt.Sprintf("Int128FromInt(%d) = {%x,%x}", v, i128.High, i128.Low), v)
			}
			u := uint64(v)
			if x := proto.Int128FromUInt64(u); x.UInt64() != u || x.High != 0 || x.Low != u {
				r.Violation("Int128FromUInt64", fmt.Sprintf("Int128FromUInt64(%d) = {%x,%x}", u, x.High, x.Low), v)
			}
			if x := proto.UInt128FromUInt64(u); x.UInt64() != u || x.High != 0 {
				r.Violation("UInt128FromUInt64", fmt.Sprintf("UInt128FromUInt64(%d) = {%x,%x}", u, x.High, x.Low), v)
			}
			if v >= 0 {
				if x := proto.UInt128FromInt(int(v)); x.Int() != int(v) || x.High != 0 {
					r.Violation("UInt128FromInt", fmt.Sprintf("UInt128FromInt(%d) = {%x,%x}", v, x.High, x.Low), v)
				}
			}
			i256 := proto.Int256FromInt(int(v))
			want256 := new(big.Int).SetInt64(v)
			if v < 0 {
				want256.Add(want256, new(big.Int).Lsh(big.NewInt(1), 256))
			}
			got256 := new(big.Int)
			for _, limb := range []uint64{i256.High.High, i256.High.Low, i256.Low.High, i256.Low.Low} {
				got256.Mul(got256, two64)
				got256.Add(got256, new(big.Int).SetUint64(limb))
			}
			if got256.Cmp(want256) != 0 {
				r.Violation("Int256FromInt:layout", fmt.Sprintf("Int256FromInt(%d) = %x", v, got256), v)
			}
			if x := proto.UInt256FromUInt64(u); x.Low.Low != u || x.Low.High != 0 || x.High.Low != 0 || x.High.High != 0 {
				r.Violation("UInt256FromUInt64", fmt.Sprintf("UInt256FromUInt64(%d) wrong limbs", u), v)
			}
			if v >= 0 {
				if x := proto.UInt256FromInt(int(v)); x.Low.Low != u || x.Low.High != 0 || x.High.Low != 0 || x.High.High != 0 {
					r.Violation("UInt256FromInt", fmt.Sprintf("UInt256FromInt(%d) wrong limbs", v), v)
				}
			}
		}
		r.Sample(map[string]any{"subspace": "wide-int", "inputs": len(ints)})
	}

	// --- IPv4 / IPv6 ---
	{
		const parts = 64
		span := uint64(1<<32) / parts
		for p := uint64(0); p < parts; p++ {
			if !next() {
				continue
			}
			check := func(x uint64) {
				v := proto.IPv4(x)
				r.Eval()
				ip := v.ToIP()
				if got := proto.ToIPv4(ip); got != v {
					r.Violation("IPv4:roundtrip", fmt.Sprintf("ToIPv4(IPv4(%d).ToIP()) = %d", x, got), x)
				}
				want := fmt.Sprintf("%d.%d.%d.%d", x>>24, (x>>16)&255, (x>>8)&255, x&255)
				if s := v.String(); s != want {
					r.Violation("IPv4:String", fmt.Sprintf("IPv4(%d).String() = %s want %s", x, s, want), x)
				}
			}
			lo, hi := p*span, (p+1)*span
			if quick {
				rng := r.Rand(int64(p), "ip")
				check(lo)
				check(hi - 1)
				for k := 0; k < 20000; k++ {
					x := lo + uint64(rng.Int63n(int64(span)))
					check(x)
					if k < 32 {
						r.NonTrivial("IPv4", x)
					}
				}
			} else {
				for x := lo; x < hi; x++ {
					check(x)
				}
				r.NonTrivial("IPv4-range", lo)
				r.Count("ipv4_values_enumerated", int64(span))
			}
		}
		if next() {
			rng := r.Rand(0, "ip6")
			for k := 0; k < r.Pick(100000, 2000000); k++ {
				var v proto.IPv6
				switch k % 4 {
				case 0:
					rng.Read(v[:])
				case 1: // v4-mapped
					v[10], v[11] = 0xff, 0xff
					rng.Read(v[12:])
				case 2:
					rng.Read(v[:rng.Intn(17)])
				case 3:
					for i := range v {
						if rng.Intn(3) == 0 {
							v[i] = 0xff
						}
					}
				}
				r.Eval()
				if k < 1000 {
					r.NonTrivial("IPv6", fmt.Sprintf("%x", v[:]))
				}
				if got := proto.ToIPv6(v.ToIP()); got != v {
					r.Violation("IPv6:roundtrip", fmt.Sprintf("ToIPv6(IPv6(%x).ToIP()) = %x", v[:], got[:]), fmt.Sprintf("%x", v[:]))
				}
				// the other direction, at the level of addresses: a 16-byte address stays that address
				// (an IPv4-mapped one is not turned into its 4-byte form)
				if a := netip.AddrFrom16(v); proto.ToIPv6(a).ToIP() != a || !v.ToIP().Is6() || v.ToIP().BitLen() != 128 {
					r.Violation("IPv6:address-roundtrip", fmt.Sprintf("ToIPv6(%s).ToIP() = %s (Is6=%v, %d bits)", a, proto.ToIPv6(a).ToIP(), v.ToIP().Is6(), v.ToIP().BitLen()), fmt.Sprintf("%x", v[:]))
				} else if v.String() != a.String() {
					r.Violation("IPv6:String-form", fmt.Sprintf("IPv6(%x).String() = %s, the address prints as %s", v[:], v.String(), a), fmt.Sprintf("%x", v[:]))
				}
				if a, err := netip.ParseAddr(v.String()); err != nil || a.As16() != [16]byte(v) {
					r.Violation("IPv6:String", fmt.Sprintf("IPv6(%x).String() = %s does not parse back", v[:], v.String()), fmt.Sprintf("%x", v[:]))
				}
			}
		}
	}

	// --- Interval.Add ---
	if next() {
		rng := r.Rand(0, "interval")
		n := r.Pick(60000, 1500000)
		for k := 0; k < n; k++ {
			day := -25567 + rng.Int63n(120529+25567-800)
			y, m, d := civilFromDays(day)
			if k%3 != 0 && d > 28 {
				d = 28
			}
			base := time.Date(int(y), time.Month(m), d, rng.Intn(24), rng.Intn(60), rng.Intn(60), 0, time.UTC)
			val := int64(rng.Intn(41) - 20)
			if k%50 == 0 {
				val = int64(rng.Intn(2001) - 1000)
			}
			for sc := proto.IntervalSecond; sc <= proto.IntervalYear; sc++ {
				iv := proto.Interval{Scale: sc, Value: val}
				got := iv.Add(base)
				r.Eval()
				if k < 2000 {
					r.NonTrivial("Interval", int(sc), val, base.Unix())
				}
				fail := func(class, want string) {
					r.Violation("Interval.Add:"+class, fmt.Sprintf("Interval{%v,%d}.Add(%s) = %s, want %s", sc, val, base.Format(time.RFC3339), got.Format(time.RFC3339), want), map[string]any{"scale": int(sc), "value": val, "base": base.Unix()})
				}
				switch sc {
				case proto.IntervalSecond, proto.IntervalMinute, proto.IntervalHour:
					unit := map[proto.IntervalScale]int64{proto.IntervalSecond: 1, proto.IntervalMinute: 60, proto.IntervalHour: 3600}[sc]
					if got.Unix()-base.Unix() != unit*val {
						fail(sc.String(), fmt.Sprintf("+%d s", unit*val))
					}
				case proto.IntervalDay, proto.IntervalWeek:
					mul := int64(1)
					if sc == proto.IntervalWeek {
						mul = 7
					}
					if got.Unix()-base.Unix() != 86400*mul*val {
						fail(sc.String(), fmt.Sprintf("+%d days", mul*val))
					}
				case proto.IntervalMonth, proto.IntervalQuarter, proto.IntervalYear:
					months := val
					if sc == proto.IntervalQuarter {
						months = 3 * val
					} else if sc == proto.IntervalYear {
						months = 12 * val
					}
					if d > 28 {
						// conventions differ on month ends; only quarter == 3 months is judged.
						if sc == proto.IntervalQuarter {
							ref := proto.Interval{Scale: proto.IntervalMonth, Value: 3 * val}.Add(base)
							if !ref.Equal(got) {
								fail("IntervalQuarter", ref.Format(time.RFC3339)+" (= 3*value months)")
							}
						}
						continue
					}
					tm := int64(y)*12 + int64(m-1) + months
					wy, wm := floorDiv(tm, 12), int(tm-floorDiv(tm, 12)*12)+1
					wantDays := daysFromCivil(wy, wm, d)
					wantUnix := wantDays*86400 + int64(base.Hour())*3600 + int64(base.Minute())*60 + int64(base.Second())
					if got.Unix() != wantUnix {
						fail(sc.String(), time.Unix(wantUnix, 0).UTC().Format(time.RFC3339))
					}
				}
			}
		}
		r.Sample(map[string]any{"subspace": "Interval.Add", "bases": n, "scales": 8})
	}
	// --- Interval.Add: day / week counts up to the width of the documented range, and calendar
	// days in zones with daylight saving (same wall clock on the target day) ---
	if next() {
		rng := r.Rand(0, "interval-wide")
		var dst []*time.Location
		for _, name := range []string{"Europe/Berlin", "America/New_York", "Australia/Sydney"} {
			if l, err := time.LoadLocation(name); err == nil {
				dst = append(dst, l)
			}
		}
		r.Count("dst_zones_available", int64(len(dst)))
		n := r.Pick(40000, 800000)
		for k := 0; k < n; k++ {
			day := -25567 + rng.Int63n(120529+25567)
			target := -25567 + rng.Int63n(120529+25567)
			if k%4 == 0 {
				target = day + rng.Int63n(801) - 400
				if target < -25567 || target > 120529 {
					target = day
				}
			}
			y, m, d := civilFromDays(day)
			hh, mm, ss := []int{0, 4, 5, 9, 12, 17, 23}[rng.Intn(7)], rng.Intn(60), rng.Intn(60)
			loc := time.UTC
			if len(dst) > 0 && k%2 == 0 {
				loc = dst[rng.Intn(len(dst))]
			}
			base := time.Date(int(y), time.Month(m), d, hh, mm, ss, 0, loc)
			for _, sc := range []proto.IntervalScale{proto.IntervalDay, proto.IntervalWeek} {
				cnt := target - day
				if sc == proto.IntervalWeek {
					cnt /= 7
				}
				wantDay := day + cnt
				if sc == proto.IntervalWeek {
					wantDay = day + 7*cnt
				}
				got := proto.Interval{Scale: sc, Value: cnt}.Add(base).In(loc)
				r.Eval()
				if k < 3000 {
					r.NonTrivial("Interval-wide", int(sc), cnt, day, loc.String())
				}
				wy, wm, wd := civilFromDays(wantDay)
				if got.Year() != int(wy) || int(got.Month()) != wm || got.Day() != wd || got.Hour() != hh || got.Minute() != mm || got.Second() != ss {
					cls := "large-count"
					if cnt > -1000 && cnt < 1000 {
						cls = "calendar-day"
					}
					r.Violation("Interval.Add:"+sc.String()+":"+cls, fmt.Sprintf("Interval{%v,%d}.Add(%s) = %s, want %04d-%02d-%02d %02d:%02d:%02d in %s", sc, cnt, base.Format(time.RFC3339), got.Format(time.RFC3339), wy, wm, wd, hh, mm, ss, loc), map[string]any{"scale": int(sc), "value": cnt, "base": base.Unix(), "zone": loc.String()})
				}
			}
		}
		r.Sample(map[string]any{"subspace": "Interval.Add day/week wide counts and DST zones", "bases": n})
	}
}

// c20TimeColumns drives ColDateTime64(p) (and, with p == 0, ColDateTime, ColDate, ColDate32) with a
// batch of instants through Append, AppendArr and Array().Append and compares raw values and Row(i)
// with arithmetic of its own.
func c20TimeColumns(r *core.Run, p int, zones []int) {
	const minSec, maxSec = int64(-2208988800), int64(10413791999)
	rng := r.Rand(int64(p), "dt64col")
	pow := int64(1)
	for i := 0; i < p; i++ {
		pow *= 10
	}
	tickNs := int64(1e9) / pow
	lim := new(big.Int).SetInt64(math.MaxInt64)
	fits := func(sec int64) bool {
		b := new(big.Int).Mul(big.NewInt(sec), big.NewInt(pow))
		b.Abs(b)
		b.Add(b, big.NewInt(pow))
		return b.Cmp(lim) < 0
	}
	loc := time.FixedZone("z", zones[rng.Intn(len(zones))])
	var batch []time.Time
	var secs, nss []int64
	add := func(sec, ns int64) {
		if !fits(sec) {
			return
		}
		secs, nss = append(secs, sec), append(nss, ns)
		tt := time.Unix(sec, ns)
		if rng.Intn(2) == 0 {
			tt = tt.In(loc)
		} else {
			tt = tt.UTC()
		}
		batch = append(batch, tt)
	}
	for _, s := range []int64{minSec, minSec + 1, -2, -1, 0, 1, 1 << 31, 1<<32 - 1, 1 << 32, 9223372036, 9223372037, -9223372036, -9223372037, 9783072000, maxSec - 1, maxSec} {
		add(s, 0)
		add(s, tickNs*rng.Int63n(pow))
		add(s, rng.Int63n(1e9))
	}
	n := r.Pick(1500, 60000)
	for i := 0; i < n; i++ {
		add(minSec+rng.Int63n(maxSec-minSec+1), tickNs*rng.Int63n(pow))
	}
	prec := proto.Precision(p)
	a := new(proto.ColDateTime64).WithPrecision(prec).WithLocation(loc)
	b := new(proto.ColDateTime64).WithPrecision(prec).WithLocation(loc)
	inner := new(proto.ColDateTime64).WithPrecision(prec).WithLocation(loc)
	arr := inner.Array()
	for _, tt := range batch {
		a.Append(tt)
	}
	// bulk paths in pieces of varying length
	for i := 0; i < len(batch); {
		k := 1 + rng.Intn(64)
		if i+k > len(batch) {
			k = len(batch) - i
		}
		b.AppendArr(batch[i : i+k])
		arr.Append(batch[i : i+k])
		i += k
	}
	if a.Rows() != len(batch) || b.Rows() != len(batch) || inner.Rows() != len(batch) {
		r.Violation("ColDateTime64:rows", fmt.Sprintf("p=%d: %d instants appended, Append column has %d rows, AppendArr column %d, array elements %d", p, len(batch), a.Rows(), b.Rows(), inner.Rows()), p)
		return
	}
	for i := range batch {
		r.Eval()
		r.NonTrivial("ColDateTime64", p, secs[i], nss[i])
		era := "1678..2262"
		if secs[i] > 9223372036 || secs[i] < -9223372036 {
			era = "outside-UnixNano-range"
		}
		want := secs[i]*pow + nss[i]/tickNs
		if nss[i]%tickNs != 0 {
			// not representable: the three paths must still agree
			want = int64(a.Data[i])
		}
		cs := map[string]any{"sec": secs[i], "nsec": nss[i], "p": p}
		if int64(a.Data[i]) != want {
			r.Violation("ColDateTime64.Append:"+era, fmt.Sprintf("Append(%s) at p=%d stored %d, want %d", batch[i].Format(time.RFC3339Nano), p, a.Data[i], want), cs)
		}
		if int64(b.Data[i]) != want {
			r.Violation("ColDateTime64.AppendArr:"+era, fmt.Sprintf("AppendArr(...%s...) at p=%d stored %d, want %d (Append stores %d)", batch[i].Format(time.RFC3339Nano), p, b.Data[i], want, a.Data[i]), cs)
		}
		if int64(inner.Data[i]) != want {
			r.Violation("ColDateTime64.Array.Append:"+era, fmt.Sprintf("Array().Append(...%s...) at p=%d stored %d, want %d", batch[i].Format(time.RFC3339Nano), p, inner.Data[i], want), cs)
		}
		if nss[i]%tickNs == 0 {
			for name, got := range map[string]time.Time{"Append": a.Row(i), "AppendArr": b.Row(i)} {
				if got.Unix() != secs[i] || int64(got.Nanosecond()) != nss[i] {
					r.Violation("ColDateTime64.Row:"+name+":"+era, fmt.Sprintf("p=%d: Row(%d) after %s(%s) = %s", p, i, name, batch[i].Format(time.RFC3339Nano), got.Format(time.RFC3339Nano)), cs)
				}
				if _, off := got.Zone(); off != zoneOffset(loc) {
					r.Violation("ColDateTime64.Row:location", fmt.Sprintf("Row(%d) is in zone offset %d, the column's location has %d", i, off, zoneOffset(loc)), cs)
				}
			}
		}
	}
	r.Sample(map[string]any{"subspace": "ColDateTime64 Append/AppendArr/Array/Row", "precision": p, "instants": len(batch)})
	if p != 0 {
		return
	}
	// second-resolution columns: DateTime (0..2^32-1), Date (0..65535 days), Date32 (1900..2299)
	var dtA, dtB proto.ColDateTime
	var dA, dB proto.ColDate
	var d32A, d32B proto.ColDate32
	var tb []time.Time
	var wantDT []uint32
	var wantD []uint16
	var wantD32 []int32
	for i := 0; i < r.Pick(20000, 400000); i++ {
		off := zones[rng.Intn(len(zones))]
		sec := rng.Int63n(1 << 32)
		switch rng.Intn(8) {
		case 0:
			sec = []int64{0, 1, 86399, 86400, 1<<31 - 1, 1 << 31, 1<<32 - 1}[rng.Intn(7)]
		}
		tt := time.Unix(sec, rng.Int63n(1e9)).In(time.FixedZone("z", off))
		tb = append(tb, tt)
		wantDT = append(wantDT, uint32(sec))
		day := floorDiv(sec+int64(off), 86400)
		wantD = append(wantD, uint16(day))
		wantD32 = append(wantD32, int32(day))
	}
	for _, tt := range tb {
		dtA.Append(tt)
		dA.Append(tt)
		d32A.Append(tt)
	}
	dtB.AppendArr(tb)
	dB.AppendArr(tb)
	d32B.AppendArr(tb)
	for i, tt := range tb {
		r.Eval()
		day := int64(wantD32[i])
		cs := map[string]any{"time": tt.Format(time.RFC3339Nano)}
		if uint32(dtA.Data[i]) != wantDT[i] || uint32(dtB.Data[i]) != wantDT[i] {
			r.Violation("ColDateTime.Append/AppendArr", fmt.Sprintf("%s: Append stored %d, AppendArr %d, want %d", tt.Format(time.RFC3339), dtA.Data[i], dtB.Data[i], wantDT[i]), cs)
		}
		if day >= 0 && day <= 65535 && (uint16(dA[i]) != wantD[i] || uint16(dB[i]) != wantD[i]) {
			r.Violation("ColDate.Append/AppendArr", fmt.Sprintf("%s: Append stored day %d, AppendArr %d, local calendar day is %d", tt.Format(time.RFC3339), dA[i], dB[i], wantD[i]), cs)
		}
		if int32(d32A[i]) != wantD32[i] || int32(d32B[i]) != wantD32[i] {
			r.Violation("ColDate32.Append/AppendArr", fmt.Sprintf("%s: Append stored day %d, AppendArr %d, local calendar day is %d", tt.Format(time.RFC3339), d32A[i], d32B[i], wantD32[i]), cs)
		}
	}
	r.Sample(map[string]any{"subspace": "ColDateTime/ColDate/ColDate32 Append/AppendArr", "instants": len(tb)})
}

func zoneOffset(l *time.Location) int {
	_, off := time.Unix(0, 0).In(l).Zone()
	return off
}
