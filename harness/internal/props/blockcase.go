package props

import (
	"fmt"
	"math/rand"

	"github.com/ClickHouse/ch-go/proto"

	"verif/internal/core"
	"verif/internal/ref"
	"verif/internal/val"
)

// blockCase is one generated (type, values, revision) with the library's encoding of it.
type blockCase struct {
	TS    string
	T     *ref.Type
	Vals  []ref.Val
	Rows  int
	Rev   int
	Kind  string
	Mk    func() (val.LibCol, error)
	Bytes []byte // EncodeBlock output: block with columns "v" (the type) and "i" (UInt32)
	Order int    // 0: [v, i]   1: [i, v]   2: [v]
}

func (b *blockCase) Desc() map[string]any {
	return map[string]any{"type": b.TS, "kind": b.Kind, "rows": b.Rows, "rev": b.Rev, "bytes": len(b.Bytes), "column_order": []string{"v,i", "i,v", "v"}[b.Order]}
}

// genBlockCase builds a case from the catalogue (sel < len(Catalogue)) or a random composition.
func genBlockCase(r *core.Run, idx int64, sel int, rows int, rev int, opt val.GenOpt) (*blockCase, error) {
	rng := r.Rand(idx, "blockcase")
	bc := &blockCase{Rows: rows, Rev: rev, Order: int(idx % 3)}
	if sel >= 0 && sel < len(val.Catalogue) {
		e := val.Catalogue[sel]
		bc.TS = e.Type
		bc.Mk = func() (val.LibCol, error) { return e.New(), nil }
	} else {
		bc.TS = val.GenType(rng, 1+rng.Intn(3))
		seed := rng.Int63()
		ts := bc.TS
		bc.Mk = func() (val.LibCol, error) {
			t, err := ref.ParseType(ts)
			if err != nil {
				return nil, err
			}
			return val.Build(t, rand.New(rand.NewSource(seed)).Intn)
		}
	}
	t, err := ref.ParseType(bc.TS)
	if err != nil {
		return nil, err
	}
	bc.T = t
	bc.Vals = val.GenColumn(rng, t, rows, opt)
	if opt.TailStr > 0 && rows > 0 {
		bc.Order = 1 + int(idx%2)
		val.InflateLastString(&bc.Vals[rows-1], t, opt.TailStr, rng)
	}
	src, err := bc.Mk()
	if err != nil {
		return nil, err
	}
	bc.Kind = src.Kind()
	var encErr error
	if p := core.Recover(func() {
		for _, v := range bc.Vals {
			src.Append(v)
		}
		idxCol := new(proto.ColUInt32)
		for i := 0; i < rows; i++ {
			idxCol.Append(uint32(i))
		}
		input := []proto.InputColumn{{Name: "v", Data: src.Col()}, {Name: "i", Data: idxCol}}
		switch bc.Order {
		case 1:
			input[0], input[1] = input[1], input[0]
		case 2:
			input = input[:1]
		}
		blk := proto.Block{Columns: len(input), Rows: rows, Info: proto.BlockInfo{BucketNum: -1}}
		var b proto.Buffer
		encErr = blk.EncodeBlock(&b, rev, input)
		bc.Bytes = b.Buf
	}); p != "" {
		return nil, fmt.Errorf("encode panic: %s", p)
	}
	if encErr != nil {
		return nil, encErr
	}
	return bc, nil
}

// targets returns fresh result targets for the case.
func (b *blockCase) targets() (val.LibCol, proto.Results, error) {
	dst, err := b.Mk()
	if err != nil {
		return nil, nil, err
	}
	res := proto.Results{{Name: "v", Data: dst.Col()}, {Name: "i", Data: new(proto.ColUInt32)}}
	switch b.Order {
	case 1:
		res[0], res[1] = res[1], res[0]
	case 2:
		res = res[:1]
	}
	return dst, res, nil
}
