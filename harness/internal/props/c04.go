package props

import (
	"context"
	"errors"
	"fmt"
	"math/rand"
	"sort"
	"strings"
	"time"

	"github.com/ClickHouse/ch-go"

	"verif/internal/core"
	"verif/internal/ref"
	"verif/internal/simnet"
)

func init() {
	Registry["C04"] = Spec{
		Fn:          c04,
		Level:       "fault_enumeration",
		Rule:        "scenarios {select, select+telemetry, insert with schema exchange, streamed insert (2-3 rounds + tail), LZ4/ZSTD/None variants, external data} x fault points taken from a fault-free pilot run of each scenario: server stream cut (EOF and reset) after every byte k (all k for streams <= 512 B, else 256 sampled) ; client write error after every byte k of the query's bytes; every callback invocation failing (with a plain error, and with an error that wraps a *ch.Exception obtained elsewhere); an exception injected at every gate (before/after each client write, before each server packet, inside each callback, at each internal hook point: query/block encoded/flushed, packet code read, cancel-watch); unknown packet code and each well-formed but unexpected packet kind before each server packet; an exception followed by the end of the caller's context while the sender still holds unsent output; an input callback failing while the server has gone silent in the middle of a packet; exception together with a write error at an unrelated byte, and an exception consumed while a write is in flight that then fails after 0, 1 or 7 more bytes. Post-state oracle after Do returned an error: the client is closed (then Do/Ping return ErrClosed without any call on the connection), or it is open and the client byte stream is at a packet boundary, a follow-up Ping writes exactly 04 and completes. Do must return. The same post-state rule is applied to a Ping that fails before or while its byte is written (context already done, write error). Non-trivial = the planned fault fired and Do returned an error; distinct = (scenario, fault kind, fault point)",
		Assumptions: []string{"a finite read timeout (100 ms) so that a cancelled receive loop ends; exceptions are injected at packet boundaries of the server stream and nothing is sent after them, as a server does"},
		MinDistinct: 300,
	}
}

func bgCtx() (context.Context, context.CancelFunc) {
	return context.WithTimeout(context.Background(), 15*time.Second)
}

func c04(r *core.Run) {
	var ci int64
	for si, sc := range scenarios {
		seed := int64(1000*si) + r.Seed
		pilot := runScenario(sc, seed, nil, 100*time.Millisecond, bgCtx)
		if !pilot.Returned || (pilot.Err != nil && !(sc.EndsExc && ch.IsException(pilot.Err))) {
			r.Violation("harness:pilot", fmt.Sprintf("fault-free pilot of %s failed: returned=%v err=%v", sc.Name, pilot.Returned, pilot.Err), sc.Name)
			if pilot.Sim != nil && pilot.Sim.Client != nil {
				pilot.Sim.Client.Close()
			}
			continue
		}
		srvBytes := pilot.Sim.Conn.Delivered() - pilot.HandshakeR
		cliBytes := pilot.WrittenAtReturn - pilot.HandshakeW
		gates := gatesOf(pilot)
		pilot.Sim.Client.Close()
		if r.Shard == 0 {
			r.Sample(map[string]any{"scenario": sc.Name, "gates": len(gates), "server_bytes": srvBytes, "client_bytes": cliBytes, "gate_trace": gates})
		}
		r.SetAdd("hook_orders_fault_free", fmt.Sprintf("%s:%016x", sc.Name, hookSignature(pilot.Hooks)))
		var plans []*fault
		// byte cuts of the server stream
		// first bytes of the server's packets in the pilot trace (reader-side gate events carry the
		// number of bytes delivered so far)
		bounds := map[int64]bool{0: true}
		for _, e := range pilot.Sim.Conn.Events() {
			if e.Op == "gate" && strings.HasPrefix(e.Gate, "srv:before:") {
				bounds[int64(e.N)-pilot.HandshakeR] = true
			}
		}
		for _, k := range byteOffsets(r, srvBytes, seed) {
			plans = append(plans, &fault{Kind: "cut", K: k, MidPacket: !bounds[k]}, &fault{Kind: "cut", K: k, Reset: true, MidPacket: !bounds[k]})
		}
		for i, k := range byteOffsets(r, srvBytes, seed+2) {
			if r.Quick() && i >= 70 {
				break
			}
			plans = append(plans, &fault{Kind: "corrupt", K: k, Mask: []int{0x01, 0x80, 0xff, 0x40}[i%4]})
		}
		for _, k := range byteOffsets(r, cliBytes, seed+1) {
			plans = append(plans, &fault{Kind: "write-error", K: k})
		}
		for _, g := range gates {
			if strings.HasPrefix(g, "cb:") {
				plans = append(plans, &fault{Kind: "callback-fail", Gate: g}, &fault{Kind: "callback-fail-wrapping-exception", Gate: g})
			}
			plans = append(plans, &fault{Kind: "exception", Gate: g})
			if strings.HasPrefix(g, "hook:sender:") || strings.HasPrefix(g, "write:") || strings.HasPrefix(g, "cb:input") {
				// the sender waits at the gate until the receiver has handled the exception
				plans = append(plans, &fault{Kind: "exception", Gate: g, Hold: true})
				// ... and the caller's context ends as well before the sender goes on
				plans = append(plans, &fault{Kind: "exception+cancel", Gate: g})
			}
			if strings.HasPrefix(g, "srv:before:") {
				plans = append(plans, &fault{Kind: "unknown-packet", Gate: g, K: int64(len(plans))})
				for u := range unexpectedPackets {
					plans = append(plans, &fault{Kind: "unexpected-packet", Gate: g, K: int64(u)})
				}
				plans = append(plans, &fault{Kind: "drop-connection", Gate: g})
			}
		}
		// the last server byte is EndOfStream (05): turned into a Data code (01) the client waits for
		// a block that never comes; without a caller deadline only the read timeout could end it
		if !sc.EndsExc {
			plans = append(plans, &fault{Kind: "corrupt-then-silence", K: srvBytes - 1, Mask: 0x04})
		}
		// exception together with a write error
		for i, g := range gates {
			if i%3 == 0 && cliBytes > 2 {
				plans = append(plans, &fault{Kind: "exception+write-error", Gate: g, K: (int64(i) * 7) % cliBytes})
			}
		}
		// the sender fails (input callback) while the receiver is stuck in the middle of a packet of
		// a server that went silent: Do must still return (the cancel-watch closes the connection)
		if sc.Insert && sc.Stream > 0 && !sc.EndsExc {
			hdr := int64(len(simnet.PacketData(54460, ref.ServerDataCode, scnBlock(rand.New(rand.NewSource(1)), 0), sc.Comp != ch.CompressionDisabled, ref.MethodLZ4)))
			for _, g := range gates {
				if strings.HasPrefix(g, "cb:input#") && g != "cb:input#0" {
					for _, k := range []int64{hdr + 1, hdr + 2, hdr + 7, (hdr + srvBytes) / 2} {
						if k > hdr && k < srvBytes {
							plans = append(plans, &fault{Kind: "stall+callback-fail", Gate: g, K: k})
						}
					}
				}
			}
		}
		// the scenario's own server exception as the only failure: the client stays open and usable
		if sc.EndsExc {
			plans = append(plans, &fault{Kind: "none"})
		}
		// exception consumed while a write is in flight, which then fails part-way
		for _, g := range gates {
			if strings.HasPrefix(g, "write:before:") {
				for _, k := range []int64{0, 1, 7} {
					plans = append(plans, &fault{Kind: "exception-during-write", Gate: g, K: k})
				}
			}
		}
		for _, f := range plans {
			ci++
			if !r.Take(ci) {
				continue
			}
			r.CaseLog(fmt.Sprintf("%d %s %s", ci, sc.Name, f))
			// failures that originate in the receiver are repeated: whether the cancel-watch
			// sees them depends on the interleaving of three goroutines
			reps := 1
			if f.Kind != "write-error" && f.Kind != "exception" {
				reps = r.Pick(4, 25)
			}
			for k := 0; k < reps; k++ {
				c04One(r, sc, seed, f)
			}
		}
	}
	// the client's other request
	for _, v := range []string{"context-cancelled-before", "deadline-passed-before", "write-error@0"} {
		ci++
		if r.Take(ci) {
			r.CaseLog(fmt.Sprintf("%d ping %s", ci, v))
			c04Ping(r, v)
		}
	}
}

func byteOffsets(r *core.Run, n int64, seed int64) []int64 {
	var out []int64
	lim := int64(r.Pick(160, 512))
	if n <= lim {
		for k := int64(0); k < n; k++ {
			out = append(out, k)
		}
		return out
	}
	rng := r.Rand(seed, "offsets")
	seen := map[int64]bool{}
	for i := int64(0); i < 24; i++ {
		seen[i], seen[n-1-i] = true, true
	}
	for len(seen) < int(lim) {
		seen[rng.Int63n(n)] = true
	}
	for k := range seen {
		out = append(out, k)
	}
	sort.Slice(out, func(i, j int) bool { return out[i] < out[j] })
	return out
}

func shortCtx() (context.Context, context.CancelFunc) {
	return context.WithTimeout(context.Background(), 1500*time.Millisecond)
}

func noDeadlineCtx() (context.Context, context.CancelFunc) {
	return context.WithCancel(context.Background())
}

// c04Ping: the same post-state rule for the other request of the client. A Ping that fails before
// or while its byte is written (context already done, write error) must leave the client closed
// or with nothing pending: the next request starts with its own first byte.
func c04Ping(r *core.Run, variant string) {
	script := &simnet.Script{Rev: 54460}
	sim := newSim(script)
	script.OnQuery = func(*ref.Query) []simnet.Item { return []simnet.Item{{Data: simnet.PacketEnd()}} }
	hctx, hcancel := context.WithTimeout(context.Background(), 10*time.Second)
	err := sim.connect(hctx, ch.Options{ReadTimeout: 100 * time.Millisecond})
	hcancel()
	r.Eval()
	desc := map[string]any{"request": "Ping", "variant": variant}
	fail := func(class, msg string) { r.Violation(class, msg+" [Ping, "+variant+"]", desc) }
	if err != nil {
		fail("harness:handshake", err.Error())
		return
	}
	cl, conn := sim.Client, sim.Conn
	defer cl.Close()
	ctx, cancel := context.WithCancel(context.Background())
	switch variant {
	case "context-cancelled-before":
		cancel()
	case "deadline-passed-before":
		cancel()
		ctx, cancel = context.WithDeadline(context.Background(), time.Now().Add(-time.Second))
	case "write-error@0":
		w := conn.WrittenBytes()
		conn.Locked(func() { conn.WriteFailAfter = w })
	}
	defer cancel()
	var perr error
	if !runWithWatchdog(10*time.Second, func() { perr = cl.Ping(ctx) }) {
		fail("ping-does-not-return", "Ping did not return")
		return
	}
	if perr == nil {
		fail("ping-succeeded", "Ping returned nil although its context was done / its write failed")
		return
	}
	r.NonTrivial("ping", variant)
	conn.Locked(func() { conn.WriteFailAfter = -1 })
	if cl.IsClosed() {
		before := len(conn.Events())
		if e := cl.Ping(context.Background()); !errors.Is(e, ch.ErrClosed) || len(conn.Events()) != before {
			fail("closed-client-accepts-calls", fmt.Sprintf("closed client: Ping=%v, %d calls on the connection", e, len(conn.Events())-before))
		}
		return
	}
	w0 := conn.WrittenBytes()
	var e2 error
	ok := runWithWatchdog(10*time.Second, func() {
		c2, cancel2 := context.WithTimeout(context.Background(), 5*time.Second)
		defer cancel2()
		e2 = cl.Do(c2, ch.Query{Body: "SELECT 1", QueryID: "after-failed-ping"})
	})
	all, _ := conn.Written()
	if next := all[w0:]; len(next) == 0 || next[0] != 0x01 {
		fail("stale-bytes-before-next-request:ping", fmt.Sprintf("client left open after Ping failed with %q; the next query wrote % x... instead of starting with its Query packet (the unsent Ping is sent later)", firstLineOf(perr.Error()), clip(next)))
		return
	}
	if !ok || e2 != nil {
		fail("open-client-unusable:ping", fmt.Sprintf("client left open after Ping failed with %q but the next query fails: %v", firstLineOf(perr.Error()), e2))
	}
}

func c04One(r *core.Run, sc scn, seed int64, f *fault) {
	mk := bgCtx
	if f.Kind == "corrupt" {
		// an altered length can make the client wait for bytes the server never sends: the
		// caller's deadline ends such a run (the no-deadline behaviour is probed separately)
		mk = shortCtx
	}
	if f.Kind == "corrupt-then-silence" {
		mk = noDeadlineCtx
		f = &fault{Kind: "corrupt", K: f.K, Mask: f.Mask, Gate: "no-deadline"}
	}
	o := runScenario(sc, seed, f, 100*time.Millisecond, mk)
	r.Eval()
	desc := map[string]any{"scenario": sc.Name, "fault": f.String(), "seed": seed}
	fail := func(class, msg string) {
		r.Violation(class, fmt.Sprintf("%s [scenario %s, fault %s]", msg, sc.Name, f), desc)
	}
	cl := o.Sim.Client
	if cl == nil {
		fail("harness:handshake", fmtErr(o.Err))
		return
	}
	defer cl.Close()
	if !o.Returned && o.StuckBusy {
		r.Inconclusive(fmt.Sprintf("%s %s: Do still computing after the extended watchdog (no stuck state)", sc.Name, f))
		o.Sim.Conn.Close()
		return
	}
	if !o.Returned {
		n, armed := o.StuckReaders, o.StuckArmed
		if f.Gate == "no-deadline" && n > 0 && !armed {
			fail("do-does-not-return:undecodable-packet-then-silence", fmt.Sprintf("no caller deadline, ReadTimeout 100ms: an altered packet code makes the client wait for a packet body; %d reader blocked in Read with no deadline armed, Do never returns", n))
			o.Sim.Conn.Close()
			return
		}
		fail("do-does-not-return:"+f.Kind, fmt.Sprintf("Do did not return within the watchdog (blocked readers: %d, read deadline armed: %v, queued items: %d); library goroutines:\n%s", n, armed, o.StuckQueue, clipS2(o.StuckStacks, 3000)))
		o.Sim.Conn.Close()
		return
	}
	r.SetAdd("hook_orders", fmt.Sprintf("%016x", hookSignature(o.Hooks)))
	if !o.Fired {
		r.Count("fault_not_reached", 1)
		return
	}
	if o.Err == nil {
		// the fault did not make the query fail (e.g. cut after the last needed byte, exception after EndOfStream was consumed)
		r.Count("fault_fired_query_succeeded", 1)
		r.SetAdd("outcomes", "succeeded")
	} else {
		r.NonTrivial(sc.Name, f.String())
		r.SetAdd("error_classes", errClassC04(o.Err))
	}
	// ---- post-state probe ----
	conn := o.Sim.Conn
	if cl.IsClosed() {
		r.SetAdd("outcomes", "closed")
		before := len(conn.Events())
		e1 := cl.Ping(context.Background())
		e2 := cl.Do(context.Background(), ch.Query{Body: "SELECT 1"})
		if !errors.Is(e1, ch.ErrClosed) || !errors.Is(e2, ch.ErrClosed) {
			fail("closed-client-accepts-calls", fmt.Sprintf("closed client: Ping=%v Do=%v, want ErrClosed", e1, e2))
		}
		if after := len(conn.Events()); after != before {
			ev := conn.Events()[before:]
			fail("closed-client-touches-connection", fmt.Sprintf("a closed client made %d calls on the connection (%s ...)", after-before, ev[0].Op))
		}
		if !conn.Closed() {
			fail("closed-client-open-connection", "IsClosed() is true but the connection was never closed")
		}
		return
	}
	if o.InjectedAfterEnd && (strings.HasPrefix(f.Kind, "exception") || f.Kind == "unknown-packet" || f.Kind == "unexpected-packet" || f.Kind == "drop-connection") {
		r.Count("injection_after_query_completed", 1)
		return
	}
	if o.Err == nil {
		r.SetAdd("outcomes", "open-after-success")
		if strings.HasPrefix(f.Kind, "exception") || f.Kind == "corrupt" || f.Kind == "unknown-packet" || f.Kind == "unexpected-packet" || f.Kind == "drop-connection" {
			// the packet was injected after the client had already consumed EndOfStream: a server
			// sends nothing after the end of a query, so the leftover is the harness' and not judged
			r.Count("injection_after_query_completed", 1)
			return
		}
	} else {
		r.SetAdd("outcomes", "open-after-error")
	}
	// open: both directions must be at a packet boundary
	if cls := errClassC04(o.Err); f.Kind == "cut" && f.MidPacket && o.Err != nil && (cls == "eof" || cls == "reset") {
		fail("open-client-mid-packet-read:cut", fmt.Sprintf("client left open after error %q although the server stream ended inside a packet (after byte %d of the response): the read side is not at a packet boundary", firstLineOf(fmtErr(o.Err)), f.K))
		return
	}
	if o.SrvErrAtReturn != nil {
		fail("open-client-malformed-stream", fmt.Sprintf("client left open after %v, but its byte stream is malformed: %v", firstLineOf(fmtErr(o.Err)), o.SrvErrAtReturn))
		return
	}
	if o.PendingAtReturn != 0 {
		fail("open-client-mid-packet:"+f.Kind, fmt.Sprintf("client left open after error %q with %d bytes of an unfinished packet written", firstLineOf(fmtErr(o.Err)), o.PendingAtReturn))
		return
	}
	conn.Locked(func() { conn.WriteFailAfter = -1 }) // the write fault was transient
	w0 := conn.WrittenBytes()
	var perr error
	ok := runWithStuckWatchdog(10*time.Second, func() {
		ctx, cancel := context.WithTimeout(context.Background(), 5*time.Second)
		defer cancel()
		perr = cl.Ping(ctx)
	})
	all, _ := conn.Written()
	pingBytes := all[w0:]
	if len(pingBytes) != 1 || pingBytes[0] != 0x04 {
		fail("stale-bytes-before-next-request:"+f.Kind, fmt.Sprintf("client left open after error %q; the next Ping wrote % x instead of 04 (bytes encoded for the failed query are sent later)", firstLineOf(fmtErr(o.Err)), clip(pingBytes)))
		return
	}
	if !ok {
		fail("followup-ping-hangs:"+f.Kind, "the follow-up Ping did not return")
		return
	}
	if perr != nil && (conn.QueueLen() > 0 || o.InjectedAfterEnd) && strings.HasPrefix(f.Kind, "exception") {
		// the injected exception arrived after the scenario's own terminal packet had been consumed
		r.Count("injection_after_query_completed", 1)
		return
	}
	if perr != nil && f.Kind != "corrupt" && f.Kind != "cut" && f.Kind != "write-error" && f.Kind != "exception+write-error" && f.Kind != "exception-during-write" && f.Kind != "drop-connection" && f.Kind != "stall+callback-fail" {
		// the transport is healthy in these plans: an open client must be usable
		fail("open-client-unusable:"+f.Kind, fmt.Sprintf("client left open after error %q but the follow-up Ping failed: %v (read side not at a packet boundary)", firstLineOf(fmtErr(o.Err)), perr))
	}
}

func errClassC04(err error) string {
	var ex *ch.Exception
	switch {
	case errors.As(err, &ex):
		return "exception"
	case errors.Is(err, errInjected):
		return "callback"
	case isCtxErr(err):
		return "context"
	case strings.Contains(err.Error(), "EOF"):
		return "eof"
	case strings.Contains(err.Error(), "reset"):
		return "reset"
	case strings.Contains(err.Error(), "broken pipe"):
		return "write-error"
	case strings.Contains(err.Error(), "unexpected packet") || strings.Contains(err.Error(), "bad server packet"):
		return "unexpected-packet"
	}
	return "other"
}
