package props

import (
	"context"
	"fmt"
	"io"
	"math/rand"
	"reflect"
	"strings"
	"time"

	"github.com/ClickHouse/ch-go"
	"github.com/ClickHouse/ch-go/proto"
	"go.opentelemetry.io/otel/trace"

	"verif/internal/core"
	"verif/internal/ref"
	"verif/internal/simnet"
	"verif/internal/val"
)

func init() {
	Registry["C02"] = Spec{
		Fn:          c02,
		Level:       "exploration",
		Rule:        "generated (Options, Query, client revision, server revision, compression) executions of Client.Do against the synchronous scripted server: ids/bodies empty/long/non-UTF8, OpenTelemetry instrumentation on in a third of the cases, 0..n connection-level and query-level settings with flags (in a third of the cases one key appears on both levels or twice on one), parameters, secret, initial user, quota keys, span contexts, external data with/without table name, input columns drawn from the whole catalogue, one representative revision per interval of the feature table (and both neighbours of every threshold) on either side, {Disabled, None, LZ4, LZ4HC, ZSTD}. Follow-up inserts on the same connection grow by one row of high-entropy data (100..4000 rows, and 140000..160000 rows = frames above 1 MiB). A bare follow-up query on the same connection must carry none of the first query's per-query fields. The recorded client byte stream is parsed by the reference codec at the negotiated revision and compared field by field with the expectation computed from the caller's inputs; nothing may be left over. Non-trivial = at least one of {settings, parameters, external data, input block, compression}; distinct = (field-presence vector, negotiated revision, compression, input type)",
		Assumptions: []string{"reference stream parser harness/internal/simnet + ref; 'supported window': settings need revision >= 54429 (library limitation recorded under C17), parameters >= 54459 must otherwise be refused before anything is written"},
		MinDistinct: 200,
	}
}

var c02Compressions = []ch.Compression{ch.CompressionDisabled, ch.CompressionNone, ch.CompressionLZ4, ch.CompressionLZ4HC, ch.CompressionZSTD}

func genChSettings(rng *rand.Rand, prefix string) []ch.Setting {
	n := rng.Intn(4)
	var out []ch.Setting
	for i := 0; i < n; i++ {
		out = append(out, ch.Setting{Key: fmt.Sprintf("%s_%d_%s", prefix, i, strings.TrimSpace(c17Strings[1+rng.Intn(3)])), Value: c17Str(rng), Important: rng.Intn(2) == 0})
	}
	return out
}

type c02Input struct {
	name string
	e    val.Entry
	vals []ref.Val
	col  val.LibCol
}

func genInputs(rng *rand.Rand, n, rows int) []c02Input {
	var out []c02Input
	for i := 0; i < n; i++ {
		e := val.Catalogue[rng.Intn(len(val.Catalogue))]
		t, _ := ref.ParseType(e.Type)
		in := c02Input{name: fmt.Sprintf("c%d", i), e: e, col: e.New()}
		in.vals = val.GenColumn(rng, t, rows, val.GenOpt{MaxElem: 3})
		for _, v := range in.vals {
			in.col.Append(v)
		}
		out = append(out, in)
	}
	return out
}

func c02(r *core.Run) {
	reps := revisionRepresentatives()
	n := r.Pick(1500, 40000)
	for ci := int64(1); ci <= int64(n); ci++ {
		if !r.Take(ci) {
			continue
		}
		rng := r.Rand(ci, "c02")
		c02One(r, ci, rng, reps)
	}
}

func c02One(r *core.Run, ci int64, rng *rand.Rand, reps []int) {
	crev := reps[rng.Intn(len(reps))]
	srev := reps[rng.Intn(len(reps))]
	if rng.Intn(3) == 0 {
		crev = 54460
	}
	if rng.Intn(3) == 0 {
		srev = 54460 + rng.Intn(20)
	}
	neg := crev
	if srev < neg {
		neg = srev
	}
	comp := c02Compressions[rng.Intn(len(c02Compressions))]
	opt := ch.Options{
		User: c17Str(rng), Password: c17Str(rng), Database: c17Str(rng), QuotaKey: c17Str(rng), ClientName: []string{"", "verif", "x y"}[rng.Intn(3)],
		Compression: comp, CompressionLevel: ch.CompressionLevel(rng.Intn(14)), ProtocolVersion: crev, ReadTimeout: 5 * time.Second,
		// instrumentation must not change a byte of what is sent (no tracer provider is installed:
		// spans are no-ops that carry the caller's span context)
		OpenTelemetryInstrumentation: rng.Intn(3) == 0,
	}
	if neg >= ref.RevSettingsAsStr {
		opt.Settings = genChSettings(rng, "conn")
	}
	q := ch.Query{Body: c17Str(rng), QueryID: c17Str(rng), QuotaKey: c17Str(rng), Secret: c17Str(rng), InitialUser: c17Str(rng)}
	if rng.Intn(6) == 0 {
		b := make([]byte, 1<<20)
		for i := range b {
			b[i] = byte('a' + i%26)
		}
		q.Body = string(b)
	}
	// lengths on both sides of every varint width change (1|2 bytes at 128, 2|3 bytes at 16384)
	edge := func() string {
		n := []int{127, 128, 129, 16383, 16384, 16385}[rng.Intn(6)]
		b := make([]byte, n)
		for i := range b {
			b[i] = byte('a' + (i*7)%26)
		}
		return string(b)
	}
	if rng.Intn(6) == 0 {
		q.Body = edge()
	}
	if rng.Intn(12) == 0 {
		q.QueryID = edge()
	}
	if neg >= ref.RevSettingsAsStr {
		q.Settings = genChSettings(rng, "query")
		if len(q.Settings) > 0 && rng.Intn(6) == 0 {
			q.Settings[rng.Intn(len(q.Settings))].Value = edge()
		}
		// the same key on both levels (same or another value), and a key repeated within one level:
		// the packet carries every entry, connection level first, in the caller's order
		if len(opt.Settings) > 0 && rng.Intn(3) == 0 {
			dup := opt.Settings[rng.Intn(len(opt.Settings))]
			if rng.Intn(2) == 0 {
				dup.Value = c17Str(rng)
			}
			dup.Important = rng.Intn(2) == 0
			at := rng.Intn(len(q.Settings) + 1)
			q.Settings = append(q.Settings[:at:at], append([]ch.Setting{dup}, q.Settings[at:]...)...)
			if rng.Intn(3) == 0 {
				q.Settings = append(q.Settings, dup)
			}
		}
	}
	wantParams := rng.Intn(3) == 0
	if wantParams {
		for i := 0; i < 1+rng.Intn(3); i++ {
			q.Parameters = append(q.Parameters, proto.Parameter{Key: fmt.Sprintf("p%d", i), Value: c17Str(rng)})
		}
	}
	rows := []int{1, 2, 5, 40}[rng.Intn(4)]
	if rng.Intn(12) == 0 {
		rows = []int{127, 128, 16383, 16384, 16385}[rng.Intn(5)]
	}
	var ext, inp []c02Input
	if rng.Intn(3) == 0 {
		ext = genInputs(rng, 1+rng.Intn(2), []int{0, 1, 3}[rng.Intn(3)])
		for _, e := range ext {
			q.ExternalData = append(q.ExternalData, proto.InputColumn{Name: e.name, Data: e.col.Col()})
		}
		if rng.Intn(2) == 0 {
			q.ExternalTable = "ext_" + c17Strings[1+rng.Intn(3)]
		}
	}
	if rng.Intn(2) == 0 {
		inp = genInputs(rng, 1+rng.Intn(3), rows)
		for _, e := range inp {
			q.Input = append(q.Input, proto.InputColumn{Name: e.name, Data: e.col.Col()})
		}
	}
	ctx := context.Background()
	var tr *ref.Trace
	if rng.Intn(2) == 0 {
		tr = genTrace(rng)
		if tr != nil {
			ctx = trace.ContextWithSpanContext(ctx, libSpan(tr))
		}
	}
	desc := map[string]any{"client_rev": crev, "server_rev": srev, "compression": comp.String(), "settings": len(opt.Settings) + len(q.Settings), "params": len(q.Parameters), "external": len(ext), "inputs": inputDesc(inp), "rows": rows, "body_len": len(q.Body), "trace": tr != nil, "otel": opt.OpenTelemetryInstrumentation}
	r.CaseLog(fmt.Sprintf("%d %v", ci, desc))
	r.Eval()

	script := &simnet.Script{Rev: srev}
	sim := newSim(script)
	compressed := comp != ch.CompressionDisabled
	method := byte(ref.MethodLZ4)
	script.OnQuery = func(rq *ref.Query) []simnet.Item {
		if len(inp) == 0 {
			return []simnet.Item{{Data: simnet.PacketEnd()}}
		}
		hdr := &ref.Block{}
		for _, e := range inp {
			hdr.Cols = append(hdr.Cols, ref.Col{Name: e.name, Type: e.e.Type})
		}
		return []simnet.Item{{Data: simnet.PacketData(sim.Srv.Rev, ref.ServerDataCode, hdr, rq.Compression == 1, method)}}
	}
	script.OnDataEnd = func() []simnet.Item { return []simnet.Item{{Data: simnet.PacketEnd()}} }
	sim.Srv.InputExpected = func(*ref.Query) bool { return len(inp) > 0 }

	var cerr, derr error
	ok := runWithWatchdog(60*time.Second, func() {
		cerr = sim.connect(ctx, opt)
		if cerr == nil {
			derr = sim.Client.Do(ctx, q)
		}
	})
	fail := func(class, msg string) {
		r.Violation(class, fmt.Sprintf("%s [client rev %d, server rev %d, negotiated %d, %s]", msg, crev, srev, neg, comp), desc)
	}
	if !ok {
		if sim.Srv.Err != nil {
			fail("malformed-client-stream:"+errSite(sim.Srv.Err), fmt.Sprintf("server-side parse error at client byte %d: %v (and the call did not return)", sim.Srv.ErrAt, sim.Srv.Err))
			return
		}
		// the client waits for the server although what it sent so far does not parse as complete
		// packets: its byte stream is not the encoding of its inputs
		var pend int
		sim.Conn.Locked(func() { pend = len(sim.Srv.Pending()) })
		if n, _ := sim.Conn.BlockedReaders(); n > 0 && pend > 0 {
			fail("client-stream-incomplete", fmt.Sprintf("the client waits for a reply while the last %d bytes it sent do not form a complete packet at the negotiated revision", pend))
			return
		}
		r.Inconclusive(fmt.Sprintf("case %d did not return within the watchdog", ci))
		return
	}
	if cerr != nil {
		fail("handshake-failed", "Connect: "+cerr.Error())
		return
	}
	defer sim.Client.Close()
	written, _ := sim.Conn.Written()
	hs := 0
	for _, p := range sim.Srv.Packets {
		if p.Kind == "hello" || p.Kind == "addendum" {
			hs = p.End
		}
	}
	if wantParams && neg < ref.RevParameters {
		if derr == nil {
			fail("parameters-not-refused", "a query with parameters was sent on a revision without parameter support")
		}
		if len(written) != hs {
			fail("bytes-written-for-refused-query", fmt.Sprintf("%d bytes written after the handshake for a refused query", len(written)-hs))
		}
		r.NonTrivial("refused-parameters", neg, comp)
		return
	}
	if derr != nil {
		if sim.Srv.Err != nil {
			fail("malformed-client-stream:"+errSite(sim.Srv.Err), fmt.Sprintf("server-side parse error at client byte %d: %v (Do returned %v)", sim.Srv.ErrAt, sim.Srv.Err, derr))
		} else {
			fail("do-failed", "Do: "+derr.Error())
		}
		return
	}
	if sim.Srv.Err != nil {
		fail("malformed-client-stream:"+errSite(sim.Srv.Err), fmt.Sprintf("server-side parse error at client byte %d: %v", sim.Srv.ErrAt, sim.Srv.Err))
		return
	}
	if n := len(sim.Srv.Pending()); n != 0 {
		fail("trailing-bytes", fmt.Sprintf("%d unparsed bytes left in the client stream: %x", n, clip(sim.Srv.Pending())))
		return
	}
	// ---- sequence ----
	var kinds []string
	for _, p := range sim.Srv.Packets {
		kinds = append(kinds, p.Kind)
	}
	want := []string{"hello"}
	if neg >= ref.RevQuotaKeyAddendum {
		want = append(want, "addendum")
	}
	want = append(want, "query")
	if len(ext) > 0 {
		want = append(want, "data")
	}
	want = append(want, "data")
	if len(inp) > 0 {
		want = append(want, "data", "data")
	}
	if !reflect.DeepEqual(kinds, want) {
		fail("packet-sequence", fmt.Sprintf("packets %v, want %v", kinds, want))
		return
	}
	pk := sim.Srv.Packets
	i := 0
	hello := pk[i].Hello
	i++
	if hello.Database != orDefault(opt.Database, "default") || hello.User != orDefault(opt.User, "default") || hello.Password != opt.Password || int(hello.Revision) != crev {
		fail("hello-fields", fmt.Sprintf("hello %+v", *hello))
	}
	if neg >= ref.RevQuotaKeyAddendum {
		if pk[i].QuotaKey != opt.QuotaKey {
			fail("addendum-quota-key", fmt.Sprintf("addendum quota key %q, configured %q", pk[i].QuotaKey, opt.QuotaKey))
		}
		i++
	}
	rq := pk[i].Query
	i++
	wantID := q.QueryID
	if wantID == "" {
		if len(rq.ID) != 36 {
			fail("query-id", fmt.Sprintf("generated query id %q is not a UUID", rq.ID))
		}
		wantID = rq.ID
	}
	exp := ref.Query{ID: wantID, Stage: 2, Body: q.Body, HasInfo: neg >= ref.RevClientWriteInfo}
	if compressed {
		exp.Compression = 1
	}
	if neg >= ref.RevInterserverSecret {
		exp.Secret = q.Secret
	}
	if neg >= ref.RevSettingsAsStr {
		for _, s := range append(append([]ch.Setting{}, opt.Settings...), q.Settings...) {
			f := uint64(0)
			if s.Important {
				f = 1
			}
			exp.Settings = append(exp.Settings, ref.Setting{Key: s.Key, Value: s.Value, Flags: f})
		}
	}
	if neg >= ref.RevParameters {
		for _, p := range q.Parameters {
			exp.Params = append(exp.Params, ref.Setting{Key: p.Key, Value: p.Value, Flags: 2})
		}
	}
	if exp.HasInfo {
		exp.Info = ref.ClientInfo{QueryKind: 1, InitialUser: q.InitialUser, InitialQueryID: wantID, InitialAddress: sim.Conn.LocalAddr().String(),
			Interface: 1, ClientName: hello.Name, Major: hello.Major, Minor: hello.Minor, Revision: uint64(neg), Patch: rq.Info.Patch}
		if neg >= ref.RevQuotaKeyInInfo {
			exp.Info.QuotaKey = q.QuotaKey
		}
		if neg >= ref.RevOpenTelemetry {
			exp.Info.Trace = tr
		}
		if neg < ref.RevVersionPatch {
			exp.Info.Patch = 0
		}
	}
	if !strings.HasPrefix(hello.Name, "clickhouse/ch-go") || (opt.ClientName != "" && hello.Name != "clickhouse/ch-go "+opt.ClientName) {
		fail("client-name", fmt.Sprintf("client name %q", hello.Name))
	}
	got := *rq
	if !reflect.DeepEqual(got, exp) {
		fail("query-fields:"+diffQuery(got, exp), fmt.Sprintf("query packet %+v, expected %+v", got, exp))
		return
	}
	checkData := func(p simnet.ClientPacket, what, table string, cols []c02Input, nrows int) {
		if neg < ref.RevTempTables {
			table = "" // the field does not exist before 50264
		}
		if p.Table != table {
			fail("data-table-name:"+what, fmt.Sprintf("%s: table name %q, want %q", what, p.Table, table))
		}
		if p.Compressed != compressed {
			fail("data-compression:"+what, fmt.Sprintf("%s: compressed=%v, want %v", what, p.Compressed, compressed))
		}
		if compressed {
			wm := map[ch.Compression]byte{ch.CompressionNone: ref.MethodNone, ch.CompressionLZ4: ref.MethodLZ4, ch.CompressionLZ4HC: ref.MethodLZ4, ch.CompressionZSTD: ref.MethodZSTD}[comp]
			if p.FrameMeth != wm {
				fail("data-compression-method:"+what, fmt.Sprintf("%s: frame method 0x%02x, want 0x%02x", what, p.FrameMeth, wm))
			}
		}
		if len(p.Block.Cols) != len(cols) || (len(cols) > 0 && p.Block.Rows != nrows) {
			fail("data-block-shape:"+what, fmt.Sprintf("%s: %d columns x %d rows, want %d x %d", what, len(p.Block.Cols), p.Block.Rows, len(cols), nrows))
			return
		}
		if len(cols) > 0 && neg >= ref.RevBlockInfo && p.Block.Info.Bucket != -1 {
			fail("data-block-info:"+what, fmt.Sprintf("bucket %d", p.Block.Info.Bucket))
		}
		for j, c := range cols {
			bc := p.Block.Cols[j]
			ht, err := ref.ParseType(bc.Type)
			mt, _ := ref.ParseType(c.e.Type)
			if bc.Name != c.name || err != nil || ht.Canon() != mt.Canon() {
				fail("data-column-header:"+what, fmt.Sprintf("column %d is %q %q, want %q %q", j, bc.Name, bc.Type, c.name, c.e.Type))
				continue
			}
			if nrows > 0 {
				if d := diffVals(c.vals, bc.Vals); d != "" {
					fail("data-values:"+what+":"+typeSite(mt), fmt.Sprintf("column %q (%s): %s", c.name, c.e.Type, d))
				}
			}
		}
	}
	if len(ext) > 0 {
		tn := q.ExternalTable
		if tn == "" {
			tn = "_data"
		}
		checkData(pk[i], "external", tn, ext, len(ext[0].vals))
		i++
	}
	checkData(pk[i], "external-terminator", "", nil, 0)
	i++
	if len(inp) > 0 {
		checkData(pk[i], "input", "", inp, rows)
		i++
		checkData(pk[i], "input-terminator", "", nil, 0)
	}
	// a bare follow-up query on the same connection (no span in its context, no settings of its own,
	// no quota key, secret, initial user, parameters or external data): nothing of the first query
	// may reappear in its Query packet
	{
		savedInp := inp
		inp = nil
		before := len(sim.Srv.Packets)
		var ferr error
		bare := ch.Query{Body: "SELECT 2", QueryID: fmt.Sprintf("bare-%d", ci)}
		if !runWithWatchdog(60*time.Second, func() { ferr = sim.Client.Do(context.Background(), bare) }) {
			r.Inconclusive("bare follow-up query did not return")
			return
		}
		if ferr != nil || sim.Srv.Err != nil {
			fail("follow-up-query:"+errSite(orErr(sim.Srv.Err, ferr)), fmt.Sprintf("bare query on a reused connection: Do=%v, server-side parse error=%v", ferr, sim.Srv.Err))
			return
		}
		np := sim.Srv.Packets[before:]
		if len(np) != 2 || np[0].Kind != "query" || np[1].Kind != "data" {
			fail("follow-up-query:packet-sequence", fmt.Sprintf("bare query: %d packets", len(np)))
			return
		}
		exp2 := ref.Query{ID: bare.QueryID, Stage: 2, Body: bare.Body, HasInfo: exp.HasInfo, Compression: exp.Compression}
		if neg >= ref.RevSettingsAsStr {
			for _, st := range opt.Settings {
				f := uint64(0)
				if st.Important {
					f = 1
				}
				exp2.Settings = append(exp2.Settings, ref.Setting{Key: st.Key, Value: st.Value, Flags: f})
			}
		}
		if exp2.HasInfo {
			exp2.Info = exp.Info
			exp2.Info.InitialUser, exp2.Info.InitialQueryID, exp2.Info.QuotaKey, exp2.Info.Trace = "", bare.QueryID, "", nil
		}
		if got2 := *np[0].Query; !reflect.DeepEqual(got2, exp2) {
			fail("follow-up-query-fields:"+diffQuery(got2, exp2), fmt.Sprintf("bare query after the first one carries %+v, expected %+v", got2, exp2))
			return
		}
		r.Count("bare_followup_queries", 1)
		inp = savedInp
	}
	// follow-up inserts on the same connection: state carried across queries (compressor and
	// writer buffers) must not leak into later packets; sizes grow by one row of high-entropy data
	if len(inp) > 0 && ci%2 == 0 {
		base := []int{100, 1000, 4000}[rng.Intn(3)]
		if ci%8 == 0 {
			// blocks whose (compressed or plain) frame exceeds 1 MiB: high-entropy rows
			base = 140000 + rng.Intn(20000)
			r.Count("followup_inserts_over_1MiB", 1)
		}
		for k := 0; k < 4; k++ {
			col := new(proto.ColUInt64)
			var vals []ref.Val
			for j := 0; j < base+k; j++ {
				x := rng.Uint64()
				col.Append(x)
				vals = append(vals, ref.Leaf([]byte{byte(x), byte(x >> 8), byte(x >> 16), byte(x >> 24), byte(x >> 32), byte(x >> 40), byte(x >> 48), byte(x >> 56)}))
			}
			follow := c02Input{name: "n", e: val.Entry{Type: "UInt64"}, vals: vals}
			inp = []c02Input{follow}
			before := len(sim.Srv.Packets)
			var ferr error
			if !runWithWatchdog(60*time.Second, func() {
				ferr = sim.Client.Do(ctx, ch.Query{Body: "INSERT INTO t VALUES", Input: proto.Input{{Name: "n", Data: col}}})
			}) {
				r.Inconclusive("follow-up insert did not return")
				return
			}
			if ferr != nil || sim.Srv.Err != nil {
				fail("follow-up-insert:"+errSite(orErr(sim.Srv.Err, ferr)), fmt.Sprintf("insert #%d of %d rows on a reused connection: Do=%v, server-side parse error=%v", k+2, base+k, ferr, sim.Srv.Err))
				return
			}
			np := sim.Srv.Packets[before:]
			if len(np) != 4 || np[0].Kind != "query" || np[1].Kind != "data" || np[2].Kind != "data" || np[3].Kind != "data" {
				fail("follow-up-insert:packet-sequence", fmt.Sprintf("insert #%d: %d packets", k+2, len(np)))
				return
			}
			checkData(np[2], "follow-up-input", "", inp, base+k)
			r.Count("followup_inserts", 1)
		}
	}
	// a streamed insert on the same connection: the input blocks must arrive in order, each with
	// the rows its round had (the column memory is reused between rounds)
	if ci%3 == 0 {
		col := new(proto.ColUInt64)
		var rounds [][]ref.Val
		fillRound := func(n int) {
			col.Reset()
			var vals []ref.Val
			for j := 0; j < n; j++ {
				x := rng.Uint64()
				col.Append(x)
				vals = append(vals, ref.Leaf([]byte{byte(x), byte(x >> 8), byte(x >> 16), byte(x >> 24), byte(x >> 32), byte(x >> 40), byte(x >> 48), byte(x >> 56)}))
			}
			rounds = append(rounds, vals)
		}
		nr := 2 + rng.Intn(3)
		per := []int{1, 4, 40, 400}[rng.Intn(4)]
		fillRound(per)
		inp = []c02Input{{name: "n", e: val.Entry{Type: "UInt64"}}}
		before := len(sim.Srv.Packets)
		var serr error
		if !runWithWatchdog(60*time.Second, func() {
			serr = sim.Client.Do(ctx, ch.Query{Body: "INSERT INTO t VALUES", Input: proto.Input{{Name: "n", Data: col}}, OnInput: func(context.Context) error {
				if len(rounds) >= nr {
					col.Reset()
					return io.EOF
				}
				fillRound(per + len(rounds))
				return nil
			}})
		}) {
			r.Inconclusive("streamed insert did not return")
			return
		}
		if serr != nil || sim.Srv.Err != nil {
			fail("streamed-insert:"+errSite(orErr(sim.Srv.Err, serr)), fmt.Sprintf("streamed insert on a reused connection: Do=%v, server-side parse error=%v", serr, sim.Srv.Err))
			return
		}
		np := sim.Srv.Packets[before:]
		if len(np) != 2+nr+1 {
			fail("streamed-insert:packet-sequence", fmt.Sprintf("%d packets for %d rounds", len(np), nr))
			return
		}
		for k := 0; k < nr; k++ {
			inp[0].vals = rounds[k]
			checkData(np[2+k], fmt.Sprintf("streamed-input"), "", inp, len(rounds[k]))
		}
		checkData(np[2+nr], "streamed-terminator", "", nil, 0)
		r.Count("streamed_inserts", 1)
	}
	fp := fmt.Sprintf("s%d p%d e%d i%v t%v", len(exp.Settings), len(exp.Params), len(ext), inputDesc(inp), tr != nil)
	if len(exp.Settings)+len(exp.Params)+len(ext)+len(inp) > 0 || compressed {
		r.NonTrivial(fp, neg, comp)
	}
	r.SetAdd("negotiated_revisions", fmt.Sprint(neg))
	r.SetAdd("compressions", comp.String())
	r.Count("client_packets_parsed", int64(len(pk)))
	r.Count("client_bytes_parsed", int64(len(written)))
	if ci%100 == 0 {
		r.Sample(map[string]any{"case": desc, "packets": kinds})
	}
}

func orDefault(s, d string) string {
	if s == "" {
		return d
	}
	return s
}

func inputDesc(in []c02Input) []string {
	var out []string
	for _, e := range in {
		out = append(out, e.e.Type)
	}
	return out
}

func errSite(err error) string {
	s := err.Error()
	if i := strings.IndexAny(s, ":(0123456789"); i > 0 {
		s = s[:i]
	}
	return strings.TrimSpace(s)
}

func diffQuery(a, b ref.Query) string {
	switch {
	case a.ID != b.ID:
		return "id"
	case !reflect.DeepEqual(a.Settings, b.Settings):
		return "settings"
	case a.Secret != b.Secret:
		return "secret"
	case a.Stage != b.Stage:
		return "stage"
	case a.Compression != b.Compression:
		return "compression"
	case a.Body != b.Body:
		return "body"
	case !reflect.DeepEqual(a.Params, b.Params):
		return "parameters"
	case !reflect.DeepEqual(a.Info, b.Info):
		ai, bi := a.Info, b.Info
		switch {
		case ai.QuotaKey != bi.QuotaKey:
			return "info.quota-key"
		case !reflect.DeepEqual(ai.Trace, bi.Trace):
			return "info.trace"
		case ai.InitialAddress != bi.InitialAddress:
			return "info.initial-address"
		case ai.Revision != bi.Revision:
			return "info.revision"
		}
		return "info"
	}
	return "other"
}

func orErr(a, b error) error {
	if a != nil {
		return a
	}
	if b != nil {
		return b
	}
	return fmt.Errorf("unknown")
}
