package props

import (
	"context"
	"fmt"
	"net"
	"runtime"
	"sort"
	"strings"
	"sync"
	"time"

	"github.com/ClickHouse/ch-go"

	"verif/internal/ref"
	"verif/internal/simnet"
)

// Sim bundles a simulated connection, its scripted server and the connected client.
type Sim struct {
	Conn   *simnet.Conn
	Srv    *simnet.ScriptServer
	Client *ch.Client
}

func newSim(script *simnet.Script) *Sim {
	srv := simnet.NewScriptServer(script)
	return &Sim{Conn: simnet.New(srv), Srv: srv}
}

// connect performs the handshake over the simulated connection.
func (s *Sim) connect(ctx context.Context, opt ch.Options) error {
	c, err := ch.Connect(ctx, s.Conn, opt)
	if err != nil {
		return err
	}
	s.Client = c
	return nil
}

// runWithWatchdog runs f and reports whether it returned within d (wall clock; a firing
// watchdog is inconclusive on its own, callers combine it with stuck-state evidence).
func runWithWatchdog(d time.Duration, f func()) (returned bool) {
	done := make(chan struct{})
	go func() {
		defer close(done)
		f()
	}()
	select {
	case <-done:
		return true
	case <-time.After(d):
		return false
	}
}

// libraryBusy reports whether some goroutine with a library frame is computing (runnable,
// running or helping the collector) rather than blocked.
func libraryBusy() bool {
	for _, g := range libraryGoroutines() {
		head := g
		if i := strings.IndexByte(g, '\n'); i >= 0 {
			head = g[:i]
		}
		if strings.Contains(head, "[runnable") || strings.Contains(head, "[running") || strings.Contains(head, "[GC ") {
			return true
		}
	}
	return false
}

// runWithStuckWatchdog is runWithWatchdog for "does not return" verdicts: when d has passed and
// a library goroutine is still computing (a loaded machine, a huge allocation being cleared), it
// keeps waiting - up to a minute more - until f returns or every library goroutine is blocked.
// Only the second outcome is a stuck state.
func runWithStuckWatchdog(d time.Duration, f func()) (returned bool) {
	done := make(chan struct{})
	go func() {
		defer close(done)
		f()
	}()
	select {
	case <-done:
		return true
	case <-time.After(d):
	}
	for i := 0; i < 60 && libraryBusy(); i++ {
		select {
		case <-done:
			return true
		case <-time.After(time.Second):
		}
	}
	select {
	case <-done:
		return true
	default:
		return false
	}
}

// simDialer hands out simulated connections for ch.Dial / chpool.
type simDialer struct {
	mu    sync.Mutex
	mk    func(i int) (*simnet.Conn, error)
	conns []*simnet.Conn
}

func (d *simDialer) DialContext(ctx context.Context, network, address string) (net.Conn, error) {
	d.mu.Lock()
	i := len(d.conns)
	d.conns = append(d.conns, nil) // reserve the id
	d.mu.Unlock()
	c, err := d.mk(i)
	if err != nil {
		return nil, err
	}
	c.ID = i
	d.mu.Lock()
	d.conns[i] = c
	d.mu.Unlock()
	return c, nil
}

func (d *simDialer) Conns() []*simnet.Conn {
	d.mu.Lock()
	defer d.mu.Unlock()
	var out []*simnet.Conn
	for _, c := range d.conns {
		if c != nil {
			out = append(out, c)
		}
	}
	return out
}

// goroutineDump returns the stacks of all goroutines.
func goroutineDump() string {
	buf := make([]byte, 1<<20)
	for {
		n := runtime.Stack(buf, true)
		if n < len(buf) {
			return string(buf[:n])
		}
		buf = make([]byte, 2*len(buf))
	}
}

// libraryGoroutines returns the stacks of goroutines that have a ch-go frame (excluding the
// harness' own calling goroutines, recognised by verif/ frames at the bottom).
func libraryGoroutines(skipContaining ...string) []string {
	var out []string
	for _, g := range strings.Split(goroutineDump(), "\n\n") {
		if !strings.Contains(g, "github.com/ClickHouse/ch-go") {
			continue
		}
		skip := false
		for _, s := range skipContaining {
			if strings.Contains(g, s) {
				skip = true
			}
		}
		if !skip {
			out = append(out, g)
		}
	}
	return out
}

// leakedLibraryGoroutines re-samples until library goroutines created by the library itself
// (created by github.com/ClickHouse/ch-go... or errgroup) are gone, or gives up.
func leakedLibraryGoroutines() []string {
	var last []string
	for i := 0; i < 200; i++ {
		last = last[:0]
		for _, g := range strings.Split(goroutineDump(), "\n\n") {
			if strings.Contains(g, "created by github.com/ClickHouse/ch-go") ||
				(strings.Contains(g, "created by golang.org/x/sync/errgroup") && strings.Contains(g, "github.com/ClickHouse/ch-go")) {
				last = append(last, g)
			}
		}
		if len(last) == 0 {
			return nil
		}
		runtime.Gosched()
		time.Sleep(time.Millisecond)
	}
	return last
}

func revisionRepresentatives() []int {
	set := map[int]bool{}
	for _, t := range ref.Thresholds {
		set[t-1], set[t], set[t+1] = true, true, true
	}
	var out []int
	for v := range set {
		if v >= 50263 {
			out = append(out, v)
		}
	}
	sort.Ints(out)
	return out
}

func fmtErr(err error) string {
	if err == nil {
		return "<nil>"
	}
	return fmt.Sprintf("%v", err)
}

func nil2script(rev int) *simnet.Script { return &simnet.Script{Rev: rev} }
