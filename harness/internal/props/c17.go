package props

import (
	"bytes"
	"fmt"
	"io"
	"math"
	"math/rand"
	"reflect"
	"sort"
	"strings"

	"github.com/ClickHouse/ch-go/proto"
	"go.opentelemetry.io/otel/trace"

	"verif/internal/core"
	"verif/internal/ref"
)

func init() {
	Registry["C17"] = Spec{
		Fn:          c17,
		Level:       "exploration",
		Rule:        "for every message kind (ClientHello, ServerHello, Query+ClientInfo+settings+parameters, ClientInfo, ClientData, Block header+info, Progress, Profile, Exception chain, TableColumns, Setting) x generated field values (empty/long/non-UTF8 strings, 0/max integers, every enum member, trace contexts) x revisions {every feature threshold and both neighbours, 50000, 54500} (thorough: every revision 50000..54500): library encode == reference encode byte for byte, library decode of it == message with exact consumption, reference decode of it == message. Non-trivial = message with >=1 revision-gated field; distinct = (message kind, revision, field fingerprint)",
		Assumptions: []string{"reference message codec harness/internal/ref/messages.go with its own copy of the feature thresholds (Core/ProtocolDefines.h)"},
		MinDistinct: 300,
		Exhaustive:  func(tier string) bool { return false },
	}
}

var c17Strings = []string{"", "x", "default", "clickhouse/ch-go", "\xff\xfe\x00non-utf8\x80", strings.Repeat("L", 300), "with space", "ünïcödé", "a=b,c"}

// c17Blank makes the field generators return empty strings / zeros (single-threaded shards only):
// used by C06's cap regime so that a shifted stream holds no garbage lengths.
var c17Blank bool

func c17Str(rng *rand.Rand) string {
	if c17Blank {
		return ""
	}
	if rng.Intn(60) == 0 {
		// long strings (stack traces, query bodies): beyond typical scratch and bufio sizes
		n := []int{16384, 16385, 20000, 70000, 131072, 200000}[rng.Intn(6)]
		b := make([]byte, n)
		for i := range b {
			b[i] = byte('a' + (i*7+n)%26)
		}
		return string(b)
	}
	if rng.Intn(8) == 0 {
		b := make([]byte, rng.Intn(40))
		rng.Read(b)
		return string(b)
	}
	return c17Strings[rng.Intn(len(c17Strings))]
}

func c17Int(rng *rand.Rand) uint64 {
	if c17Blank {
		return 0
	}
	switch rng.Intn(7) {
	case 0:
		return 0
	case 1:
		return 1
	case 2:
		return 127
	case 3:
		return 128
	case 4:
		return math.MaxInt64
	case 5:
		return 54460
	}
	return uint64(rng.Int63())
}

func c17U64(rng *rand.Rand) uint64 {
	if c17Blank {
		return 0
	}
	if rng.Intn(6) == 0 {
		return math.MaxUint64
	}
	return c17Int(rng)
}

func c17Revisions(r *core.Run) []int {
	if !r.Quick() {
		var out []int
		for v := 50000; v <= 54500; v++ {
			out = append(out, v)
		}
		return out
	}
	set := map[int]bool{50000: true, 54500: true, 0: true}
	for _, t := range ref.Thresholds {
		set[t-1], set[t], set[t+1] = true, true, true
	}
	var out []int
	for v := range set {
		out = append(out, v)
	}
	sort.Ints(out)
	return out
}

func readerOf(b []byte) *proto.Reader { return proto.NewReader(bytes.NewReader(b)) }

func atEOF(rd *proto.Reader) bool {
	_, err := rd.ReadByte()
	return err != nil && strings.Contains(err.Error(), io.EOF.Error())
}

func genTrace(rng *rand.Rand) *ref.Trace {
	if c17Blank || rng.Intn(2) == 0 {
		return nil
	}
	t := &ref.Trace{}
	rng.Read(t.TraceID[:])
	rng.Read(t.SpanID[:])
	t.TraceID[0] |= 1
	t.SpanID[0] |= 1
	t.State = []string{"", "k=v", "vendor=abc,other=1"}[rng.Intn(3)]
	t.Flags = []uint8{0, 1, 1, 0xff, 2}[rng.Intn(5)]
	return t
}

func libSpan(t *ref.Trace) trace.SpanContext {
	if t == nil {
		return trace.SpanContext{}
	}
	ts, _ := trace.ParseTraceState(t.State)
	return trace.NewSpanContext(trace.SpanContextConfig{TraceID: t.TraceID, SpanID: t.SpanID, TraceState: ts, TraceFlags: trace.TraceFlags(t.Flags)})
}

func refSpan(s trace.SpanContext) *ref.Trace {
	if !s.IsValid() {
		return nil
	}
	return &ref.Trace{TraceID: s.TraceID(), SpanID: s.SpanID(), State: s.TraceState().String(), Flags: uint8(s.TraceFlags())}
}

func genClientInfo(rng *rand.Rand) ref.ClientInfo {
	return ref.ClientInfo{QueryKind: uint8(rng.Intn(3)), InitialUser: c17Str(rng), InitialQueryID: c17Str(rng), InitialAddress: c17Str(rng),
		InitialTime: int64(c17U64(rng)), Interface: 1, OSUser: c17Str(rng), Hostname: c17Str(rng), ClientName: c17Str(rng),
		Major: c17Int(rng), Minor: c17Int(rng), Revision: c17Int(rng), QuotaKey: c17Str(rng), DistDepth: c17Int(rng), Patch: c17Int(rng),
		Trace: genTrace(rng), Collaborate: uint64(rng.Intn(2)), ReplicaCount: c17Int(rng), ReplicaNumber: c17Int(rng)}
}

func libClientInfo(c ref.ClientInfo) proto.ClientInfo {
	return proto.ClientInfo{ProtocolVersion: int(c.Revision), Major: int(c.Major), Minor: int(c.Minor), Patch: int(c.Patch),
		Interface: proto.Interface(c.Interface), Query: proto.ClientQueryKind(c.QueryKind), InitialUser: c.InitialUser,
		InitialQueryID: c.InitialQueryID, InitialAddress: c.InitialAddress, InitialTime: c.InitialTime, OSUser: c.OSUser,
		ClientHostname: c.Hostname, ClientName: c.ClientName, Span: libSpan(c.Trace), QuotaKey: c.QuotaKey, DistributedDepth: int(c.DistDepth),
		CollaborateWithInitiator: c.Collaborate == 1, CountParticipatingReplicas: int(c.ReplicaCount), NumberOfCurrentReplica: int(c.ReplicaNumber)}
}

// refClientInfo converts back, keeping only the fields defined at rev (others zero in both).
func refClientInfo(c proto.ClientInfo) ref.ClientInfo {
	o := ref.ClientInfo{QueryKind: uint8(c.Query), InitialUser: c.InitialUser, InitialQueryID: c.InitialQueryID, InitialAddress: c.InitialAddress,
		InitialTime: c.InitialTime, Interface: uint8(c.Interface), OSUser: c.OSUser, Hostname: c.ClientHostname, ClientName: c.ClientName,
		Major: uint64(c.Major), Minor: uint64(c.Minor), Revision: uint64(c.ProtocolVersion), QuotaKey: c.QuotaKey, DistDepth: uint64(c.DistributedDepth),
		Patch: uint64(c.Patch), Trace: refSpan(c.Span), ReplicaCount: uint64(c.CountParticipatingReplicas), ReplicaNumber: uint64(c.NumberOfCurrentReplica)}
	if c.CollaborateWithInitiator {
		o.Collaborate = 1
	}
	return o
}

// maskInfo zeroes the fields that do not exist at rev, so that decoded and original compare equal.
func maskInfo(c ref.ClientInfo, rev int) ref.ClientInfo {
	if rev < ref.RevQueryStartTime {
		c.InitialTime = 0
	}
	if rev < ref.RevQuotaKeyInInfo {
		c.QuotaKey = ""
	}
	if rev < ref.RevDistributedDepth {
		c.DistDepth = 0
	}
	if rev < ref.RevVersionPatch {
		c.Patch = 0
	}
	if rev < ref.RevOpenTelemetry {
		c.Trace = nil
	}
	if rev < ref.RevParallelReplicas {
		c.Collaborate, c.ReplicaCount, c.ReplicaNumber = 0, 0, 0
	}
	return c
}

func genSettings(rng *rand.Rand, custom bool) []ref.Setting {
	n := rng.Intn(4)
	if c17Blank {
		n = 0
	}
	var out []ref.Setting
	for i := 0; i < n; i++ {
		k := c17Str(rng)
		if k == "" {
			k = fmt.Sprintf("k%d", i)
		}
		s := ref.Setting{Key: k, Value: c17Str(rng), Flags: uint64(rng.Intn(8))}
		if custom {
			s.Flags = 2
		}
		out = append(out, s)
	}
	return out
}

type c17Case struct {
	Msg string `json:"message"`
	Rev int    `json:"revision"`
	Val any    `json:"value"`
}

func c17(r *core.Run) {
	revs := c17Revisions(r)
	perRev := r.Pick(40, 4)
	var ci int64
	for _, rev := range revs {
		for k := 0; k < perRev; k++ {
			ci++
			if !r.Take(ci) {
				continue
			}
			rng := r.Rand(ci, "c17")
			c17Messages(r, rng, rev)
		}
	}
}

func c17Messages(r *core.Run, rng *rand.Rand, rev int) {
	cmpBytes := func(msg string, lib, want []byte, v any) bool {
		r.Eval()
		r.NonTrivial(msg, rev, core.Hash(fmt.Sprintf("%+v", v)))
		if !bytes.Equal(lib, want) {
			r.Violation(msg+":encode-differs-from-reference", fmt.Sprintf("rev %d: library bytes differ from the reference encoding at offset %d (lib %d bytes: %x | ref %d bytes: %x)", rev, firstDiff(lib, want), len(lib), clip(lib), len(want), clip(want)), c17Case{msg, rev, v})
			return false
		}
		return true
	}
	guard := func(msg string, v any, f func()) {
		if m := core.Recover(f); m != "" {
			r.Violation(msg+":panic", m, c17Case{msg, rev, v})
		}
	}

	// ClientHello
	{
		h := ref.ClientHello{Name: c17Str(rng), Major: c17Int(rng), Minor: c17Int(rng), Revision: c17Int(rng), Database: c17Str(rng), User: c17Str(rng), Password: c17Str(rng)}
		guard("ClientHello", h, func() {
			var b proto.Buffer
			lh := proto.ClientHello{Name: h.Name, Major: int(h.Major), Minor: int(h.Minor), ProtocolVersion: int(h.Revision), Database: h.Database, User: h.User, Password: h.Password}
			lh.Encode(&b)
			var w ref.W
			h.Encode(&w)
			if !cmpBytes("ClientHello", b.Buf, w.B, h) {
				return
			}
			var d proto.ClientHello
			rd := readerOf(b.Buf[1:])
			if err := d.Decode(rd); err != nil || d != lh || !atEOF(rd) {
				r.Violation("ClientHello:decode", fmt.Sprintf("decode(encode(m)) = %+v err=%v", d, err), c17Case{"ClientHello", rev, h})
			}
		})
	}
	// ServerHello
	{
		h := ref.ServerHello{Name: c17Str(rng), Major: c17Int(rng), Minor: c17Int(rng), Revision: c17Int(rng), Timezone: c17Str(rng), DisplayName: c17Str(rng), Patch: c17Int(rng)}
		guard("ServerHello", h, func() {
			lh := proto.ServerHello{Name: h.Name, Major: int(h.Major), Minor: int(h.Minor), Revision: int(h.Revision), Timezone: h.Timezone, DisplayName: h.DisplayName, Patch: int(h.Patch)}
			var b proto.Buffer
			lh.EncodeAware(&b, rev)
			var w ref.W
			h.Encode(&w, rev)
			if !cmpBytes("ServerHello", b.Buf, w.B, h) {
				return
			}
			var d proto.ServerHello
			rd := readerOf(b.Buf[1:])
			want := lh
			if rev < ref.RevTimezone {
				want.Timezone = ""
			}
			if rev < ref.RevDisplayName {
				want.DisplayName = ""
			}
			if rev < ref.RevVersionPatch {
				want.Patch = 0
			}
			if err := d.DecodeAware(rd, rev); err != nil || d != want || !atEOF(rd) {
				r.Violation("ServerHello:decode", fmt.Sprintf("rev %d: decode(encode(m)) = %+v err=%v want %+v", rev, d, err, want), c17Case{"ServerHello", rev, h})
			}
		})
	}
	// ClientInfo (+HTTP interface occasionally) and Query
	{
		ci := genClientInfo(rng)
		guard("ClientInfo", ci, func() {
			lci := libClientInfo(ci)
			var b proto.Buffer
			lci.EncodeAware(&b, rev)
			var w ref.W
			ci.Encode(&w, rev)
			if !cmpBytes("ClientInfo", b.Buf, w.B, ci) {
				return
			}
			var d proto.ClientInfo
			rd := readerOf(b.Buf)
			err := d.DecodeAware(rd, rev)
			if err != nil || !reflect.DeepEqual(refClientInfo(d), maskInfo(ci, rev)) || !atEOF(rd) {
				r.Violation("ClientInfo:decode", fmt.Sprintf("rev %d: decode(encode(m)) = %+v err=%v", rev, refClientInfo(d), err), c17Case{"ClientInfo", rev, ci})
			}
		})
		if rng.Intn(10) == 0 {
			h := ci
			h.Interface = 2
			guard("ClientInfo", h, func() {
				lci := libClientInfo(h)
				var b proto.Buffer
				lci.EncodeAware(&b, rev)
				var d proto.ClientInfo
				r.Eval()
				if err := d.DecodeAware(readerOf(b.Buf), rev); err != nil {
					r.Violation("ClientInfo:http-interface-refused", fmt.Sprintf("rev %d: the library encodes Interface=HTTP but its decoder refuses it: %v", rev, err), c17Case{"ClientInfo(HTTP)", rev, h})
				}
			})
		}
		q := ref.Query{ID: c17Str(rng), Info: ci, Settings: genSettings(rng, false), Secret: c17Str(rng), Stage: uint64(rng.Intn(3)), Compression: uint64(rng.Intn(2)), Body: c17Str(rng), Params: genSettings(rng, true)}
		if rev < ref.RevSettingsAsStr && rng.Intn(2) == 0 {
			q.Settings = nil
		}
		guard("Query", q, func() {
			lq := proto.Query{ID: q.ID, Body: q.Body, Secret: q.Secret, Stage: proto.Stage(q.Stage), Compression: proto.Compression(q.Compression), Info: libClientInfo(ci)}
			for _, s := range q.Settings {
				lq.Settings = append(lq.Settings, proto.Setting{Key: s.Key, Value: s.Value, Important: s.Flags&1 != 0, Custom: s.Flags&2 != 0, Obsolete: s.Flags&4 != 0})
			}
			for _, s := range q.Params {
				lq.Parameters = append(lq.Parameters, proto.Parameter{Key: s.Key, Value: s.Value})
			}
			var b proto.Buffer
			lq.EncodeAware(&b, rev)
			var w ref.W
			q.Encode(&w, rev)
			if !bytes.Equal(b.Buf, w.B) {
				// classify: does it differ only in the stage byte?
				q2 := q
				q2.Stage = 2
				var w2 ref.W
				q2.Encode(&w2, rev)
				r.Eval()
				if bytes.Equal(b.Buf, w2.B) {
					r.Violation("Query:stage-not-encoded", fmt.Sprintf("rev %d: Query.EncodeAware wrote stage Complete although Stage=%d", rev, q.Stage), c17Case{"Query", rev, q})
				} else {
					cmpBytes("Query", b.Buf, w.B, q)
				}
				return
			}
			cmpBytes("Query", b.Buf, w.B, q)
			if rev < ref.RevSettingsAsStr && len(q.Settings) > 0 {
				// the old binary settings format is not modelled by either side; the encoder drops settings
				r.Violation("Query:settings-dropped-before-54429", fmt.Sprintf("rev %d: %d settings silently not encoded", rev, len(q.Settings)), c17Case{"Query", rev, q})
				return
			}
			var d proto.Query
			rd := readerOf(b.Buf[1:])
			err := d.DecodeAware(rd, rev)
			if err != nil {
				key := "Query:decode"
				if rev < ref.RevSettingsAsStr {
					key = "Query:decode-refuses-revision<54429"
				}
				r.Violation(key, fmt.Sprintf("rev %d: decode(encode(m)) failed: %v", rev, err), c17Case{"Query", rev, q})
				return
			}
			back := ref.Query{ID: d.ID, Secret: d.Secret, Stage: uint64(d.Stage), Compression: uint64(d.Compression), Body: d.Body}
			back.Info = refClientInfo(d.Info)
			for _, s := range d.Settings {
				var f uint64
				if s.Important {
					f |= 1
				}
				if s.Custom {
					f |= 2
				}
				if s.Obsolete {
					f |= 4
				}
				back.Settings = append(back.Settings, ref.Setting{Key: s.Key, Value: s.Value, Flags: f})
			}
			for _, p := range d.Parameters {
				back.Params = append(back.Params, ref.Setting{Key: p.Key, Value: p.Value, Flags: 2})
			}
			want := q
			want.Info = maskInfo(ci, rev)
			if rev < ref.RevClientWriteInfo {
				want.Info = ref.ClientInfo{}
				back.Info = ref.ClientInfo{}
			}
			if rev < ref.RevInterserverSecret {
				want.Secret = ""
			}
			if rev < ref.RevParameters {
				want.Params = nil
			}
			if !reflect.DeepEqual(back, want) || !atEOF(rd) {
				r.Violation("Query:decode", fmt.Sprintf("rev %d: decode(encode(m)) = %+v, want %+v (eof=%v)", rev, back, want, atEOF(rd)), c17Case{"Query", rev, q})
			}
			// reference decode of the library bytes
			rr := &ref.R{B: b.Buf[1:]}
			rq, err := ref.DecodeQuery(rr, rev)
			rq.HasInfo = false
			if rev < ref.RevClientWriteInfo {
				rq.Info = ref.ClientInfo{}
			}
			if err != nil || rr.Left() != 0 || !reflect.DeepEqual(rq, want) {
				r.Violation("Query:ref-decode", fmt.Sprintf("rev %d: reference decode of library bytes = %+v err=%v", rev, rq, err), c17Case{"Query", rev, q})
			}
		})
	}
	// ClientData
	{
		name := c17Str(rng)
		guard("ClientData", name, func() {
			var b proto.Buffer
			proto.ClientData{TableName: name}.EncodeAware(&b, rev)
			var w ref.W
			if rev >= ref.RevTempTables {
				w.Str(name)
			}
			if !cmpBytes("ClientData", b.Buf, w.B, name) {
				return
			}
			var d proto.ClientData
			rd := readerOf(b.Buf)
			want := name
			if rev < ref.RevTempTables {
				want = ""
			}
			if err := d.DecodeAware(rd, rev); err != nil || d.TableName != want || !atEOF(rd) {
				r.Violation("ClientData:decode", fmt.Sprintf("rev %d: decode = %q err=%v", rev, d.TableName, err), c17Case{"ClientData", rev, name})
			}
		})
	}
	// Block header + info
	{
		info := ref.BlockInfo{Overflows: rng.Intn(2) == 0, Bucket: int32(rng.Uint32())}
		cols, rows := c17Int(rng)%1000, c17Int(rng)%100000
		guard("Block", info, func() {
			blk := proto.Block{Info: proto.BlockInfo{Overflows: info.Overflows, BucketNum: int(info.Bucket)}, Columns: int(cols), Rows: int(rows)}
			var b proto.Buffer
			blk.EncodeAware(&b, rev)
			var w ref.W
			if rev >= ref.RevBlockInfo {
				ref.EncodeBlockInfo(&w, info)
			}
			w.UVarint(cols)
			w.UVarint(rows)
			if !cmpBytes("BlockHeader", b.Buf, w.B, []any{info, cols, rows}) {
				return
			}
			var bi proto.BlockInfo
			var ib proto.Buffer
			blk.Info.Encode(&ib)
			rd := readerOf(ib.Buf)
			if err := bi.Decode(rd); err != nil || bi != blk.Info || !atEOF(rd) {
				r.Violation("BlockInfo:decode", fmt.Sprintf("decode = %+v err=%v", bi, err), c17Case{"BlockInfo", rev, info})
			}
			// header of an n-column zero-row block through DecodeBlock without target
			nc := rng.Intn(4)
			var input []proto.InputColumn
			rb := &ref.Block{Info: info}
			for i := 0; i < nc; i++ {
				nm := c17Str(rng)
				input = append(input, proto.InputColumn{Name: nm, Data: new(proto.ColUInt8)})
				rb.Cols = append(rb.Cols, ref.Col{Name: nm, Type: "UInt8"})
			}
			hb := proto.Block{Info: blk.Info, Columns: nc}
			var eb proto.Buffer
			if err := hb.EncodeBlock(&eb, rev, input); err != nil {
				r.Violation("Block:encode", err.Error(), c17Case{"Block", rev, info})
				return
			}
			var rw ref.W
			_ = ref.EncodeBlock(&rw, rev, rb)
			if !cmpBytes("Block(zero rows)", eb.Buf, rw.B, rb) {
				return
			}
			var db proto.Block
			rd = readerOf(eb.Buf)
			wantInfo := blk.Info
			if rev < ref.RevBlockInfo {
				wantInfo = proto.BlockInfo{}
			}
			if err := db.DecodeBlock(rd, rev, nil); err != nil || db.Columns != nc || db.Rows != 0 || db.Info != wantInfo || !atEOF(rd) {
				r.Violation("Block:decode-header", fmt.Sprintf("rev %d: decode = %+v err=%v", rev, db, err), c17Case{"Block", rev, info})
			}
		})
	}
	// Progress
	{
		p := ref.Progress{Rows: c17U64(rng), Bytes: c17U64(rng), TotalRows: c17U64(rng), WroteRows: c17U64(rng), WroteBytes: c17U64(rng), ElapsedNs: c17U64(rng)}
		guard("Progress", p, func() {
			lp := proto.Progress{Rows: p.Rows, Bytes: p.Bytes, TotalRows: p.TotalRows, WroteRows: p.WroteRows, WroteBytes: p.WroteBytes, ElapsedNs: p.ElapsedNs}
			var b proto.Buffer
			lp.EncodeAware(&b, rev)
			var w ref.W
			p.Encode(&w, rev)
			if !cmpBytes("Progress", b.Buf, w.B, p) {
				return
			}
			var d proto.Progress
			rd := readerOf(b.Buf)
			want := lp
			if rev < ref.RevClientWriteInfo {
				want.WroteRows, want.WroteBytes = 0, 0
			}
			if rev < ref.RevServerQueryTime {
				want.ElapsedNs = 0
			}
			if err := d.DecodeAware(rd, rev); err != nil || d != want || !atEOF(rd) {
				r.Violation("Progress:decode", fmt.Sprintf("rev %d: decode = %+v err=%v", rev, d, err), c17Case{"Progress", rev, p})
			}
		})
	}
	// Profile
	{
		p := ref.Profile{Rows: c17U64(rng), Blocks: c17U64(rng), Bytes: c17U64(rng), AppliedLimit: rng.Intn(2) == 0, RowsBeforeLimit: c17U64(rng), CalcRowsBeforeLimit: rng.Intn(2) == 0}
		guard("Profile", p, func() {
			lp := proto.Profile{Rows: p.Rows, Blocks: p.Blocks, Bytes: p.Bytes, AppliedLimit: p.AppliedLimit, RowsBeforeLimit: p.RowsBeforeLimit, CalculatedRowsBeforeLimit: p.CalcRowsBeforeLimit}
			var b proto.Buffer
			lp.EncodeAware(&b, rev)
			var w ref.W
			w.UVarint(ref.ServerProfileCode)
			p.Encode(&w)
			if !cmpBytes("Profile", b.Buf, w.B, p) {
				return
			}
			var d proto.Profile
			rd := readerOf(b.Buf[1:])
			if err := d.DecodeAware(rd, rev); err != nil || d != lp || !atEOF(rd) {
				r.Violation("Profile:decode", fmt.Sprintf("decode = %+v err=%v", d, err), c17Case{"Profile", rev, p})
			}
		})
	}
	// Exception chain
	{
		n := 1 + rng.Intn(4)
		var chain []ref.Exception
		for i := 0; i < n; i++ {
			chain = append(chain, ref.Exception{Code: int32(rng.Uint32()), Name: c17Str(rng), Message: c17Str(rng), Stack: c17Str(rng)})
		}
		guard("Exception", chain, func() {
			var b proto.Buffer
			for i, e := range chain {
				le := proto.Exception{Code: proto.Error(e.Code), Name: e.Name, Message: e.Message, Stack: e.Stack, Nested: i != n-1}
				le.EncodeAware(&b, rev)
			}
			var w ref.W
			ref.EncodeExceptions(&w, chain)
			if !cmpBytes("Exception", b.Buf, w.B, chain) {
				return
			}
			rd := readerOf(b.Buf)
			for i, e := range chain {
				var d proto.Exception
				if err := d.DecodeAware(rd, rev); err != nil || int32(d.Code) != e.Code || d.Name != e.Name || d.Message != e.Message || d.Stack != e.Stack || d.Nested != (i != n-1) {
					r.Violation("Exception:decode", fmt.Sprintf("element %d: decode = %+v err=%v", i, d, err), c17Case{"Exception", rev, chain})
					return
				}
			}
			if !atEOF(rd) {
				r.Violation("Exception:decode", "bytes left after the chain", c17Case{"Exception", rev, chain})
			}
		})
	}
	// TableColumns
	{
		tc := ref.TableColumns{First: c17Str(rng), Second: c17Str(rng)}
		guard("TableColumns", tc, func() {
			var b proto.Buffer
			proto.TableColumns{First: tc.First, Second: tc.Second}.EncodeAware(&b, rev)
			var w ref.W
			w.UVarint(ref.ServerTableColumnsCode)
			tc.Encode(&w)
			if !cmpBytes("TableColumns", b.Buf, w.B, tc) {
				return
			}
			var d proto.TableColumns
			rd := readerOf(b.Buf[1:])
			if err := d.DecodeAware(rd, rev); err != nil || d.First != tc.First || d.Second != tc.Second || !atEOF(rd) {
				r.Violation("TableColumns:decode", fmt.Sprintf("decode = %+v err=%v", d, err), c17Case{"TableColumns", rev, tc})
			}
		})
	}
	r.Sample(map[string]any{"revision": rev, "messages": "ClientHello,ServerHello,ClientInfo,Query,ClientData,Block,Progress,Profile,Exception,TableColumns"})
}

func clip(b []byte) []byte {
	if len(b) > 96 {
		return b[:96]
	}
	return b
}
