// Package props holds one check per property.
package props

import (
	"sort"
	"time"

	"verif/internal/core"
)

type Spec struct {
	Fn              func(r *core.Run)
	Level           string
	Rule            string
	Assumptions     []string
	Builds          []string // worker binaries to run the shards with (default: "default")
	Shards          int
	MinDistinct     int
	MemLimit        uint64 // RLIMIT_AS for shard workers (0 = none)
	TimeoutQuick    time.Duration
	TimeoutThorough time.Duration
	Exhaustive      func(tier string) bool
	// Post runs in the parent after all shards (e.g. transcript differ, race-log parser).
	Post func(work, tier string, builds []string, shards int) ([]core.Violation, map[string]any)
}

var Registry = map[string]Spec{}

func IDs() []string {
	var ids []string
	for k := range Registry {
		ids = append(ids, k)
	}
	sort.Strings(ids)
	return ids
}
