package props

import (
	"bytes"
	"fmt"
	"math/rand"
	"strings"

	"github.com/ClickHouse/ch-go/proto"

	"verif/internal/core"
	"verif/internal/ref"
	"verif/internal/val"
)

func init() {
	Registry["C16"] = Spec{
		Fn:          c16,
		Level:       "exploration",
		Builds:      []string{"default", "purego"},
		Rule:        "histories over {Append, AppendArr (bulk, with all-zero values mixed in), AppendMany (crossing LowCardinality key widths), Reset, Prepare, Infer, EncodeColumn, WriteColumn+Flush, EncodeRawBlock, Reset+Decode(valid data, incl. reference-encoded LowCardinality with forced key widths), Reset+Decode(truncated), DecodeBlock through bound Results (0 rows with columns, 1, 2, 5 rows; no explicit Reset), SetInPlace (rows rewritten through exported column memory)} on one column object, checked after every step against a list-of-values model: Rows(), Row(i) for all i, and the reference decode of every encoding. Random histories of length <= 40 for every catalogue column and boxed random compositions; ColEnum re-inferred with renumbered / widened definitions and ColDateTime64 re-inferred with another precision / zone while still holding rows (Infer, Reset, Decode as DecodeResult does; then Append / Encode / Row / Type); a ColAuto target reused across valid, truncated and corrupted blocks and Resets; exhaustive histories of length <= 4 (quick) / 5 (thorough) over a reduced alphabet for LowCardinality, Enum, String, Array, Map, Nullable, DateTime64. Non-trivial = >=2 encodes or a decode after use; distinct = (type, kind, history)",
		Assumptions: []string{"contract: no decode into a non-empty column (Reset precedes every decode); after a failed decode the next operation is Reset; Preparable columns are prepared before encoding"},
		MinDistinct: 500,
	}
}

const (
	opAppend = iota
	opAppendMany
	opReset
	opPrepare
	opInfer
	opEncode
	opWrite
	opRawBlock
	opDecode
	opDecodeTrunc
	opAppendSeen
	opDecodeBlock
	opSetInPlace
	opAppendArr
	nOps16 = opDecodeTrunc + 1
)

var opNames = []string{"Append", "AppendMany", "Reset", "Prepare", "Infer", "EncodeColumn", "WriteColumn", "EncodeRawBlock", "Reset+Decode", "Reset+DecodeTruncated", "AppendSeen", "DecodeBlock", "SetInPlace", "AppendArr"}

type c16State struct {
	r      *core.Run
	col    val.LibCol
	t      *ref.Type
	ts     string
	model  []ref.Val
	seen   []ref.Val
	dirty  bool
	hist   []string
	enc    int
	decAft bool
	rng    *rand.Rand
	desc   map[string]any
	bad    bool
}

func (s *c16State) fail(class, msg string) {
	s.bad = true
	s.r.Violation(class+":"+typeSite(s.t), fmt.Sprintf("%s (%s) after history %v: %s", s.ts, s.col.Kind(), s.hist, msg), map[string]any{"type": s.ts, "kind": s.col.Kind(), "history": append([]string(nil), s.hist...), "build": s.r.Build})
}

func (s *c16State) checkContents(where string) {
	if s.dirty || s.bad {
		return
	}
	if p := core.Recover(func() {
		if n := s.col.Col().Rows(); n != len(s.model) {
			s.fail("rows", fmt.Sprintf("%s: Rows() = %d, model has %d", where, n, len(s.model)))
			return
		}
		for i := range s.model {
			if g := s.col.Get(i); !g.Equal(s.model[i]) {
				s.fail("row-value", fmt.Sprintf("%s: Row(%d) = %s, model %s", where, i, g.String(), s.model[i].String()))
				return
			}
		}
	}); p != "" {
		s.fail("panic", where+": "+p)
	}
}

func (s *c16State) prepare() bool {
	if pr, ok := s.col.Col().(proto.Preparable); ok {
		if err := pr.Prepare(); err != nil {
			s.fail("prepare-error", err.Error())
			return false
		}
	}
	return true
}

func (s *c16State) checkWire(where string, data []byte) {
	rows := len(s.model)
	rr := &ref.R{B: data}
	if rows == 0 {
		return
	}
	if err := ref.DecodeState(rr, s.t); err != nil {
		s.fail("encode-state", fmt.Sprintf("%s: %v", where, err))
		return
	}
	got, err := ref.DecodeColumn(rr, s.t, rows)
	if err != nil {
		s.fail("encode-undecodable", fmt.Sprintf("%s: reference decoder rejects the bytes: %v", where, err))
		return
	}
	if rr.Left() != 0 {
		s.fail("encode-trailing", fmt.Sprintf("%s: %d bytes left over", where, rr.Left()))
		return
	}
	if d := diffVals(s.model, got); d != "" {
		s.fail("encode-content", fmt.Sprintf("%s: encoded rows differ from the logical contents: %s", where, d))
	}
}

func (s *c16State) apply(op int) {
	if s.bad {
		return
	}
	s.hist = append(s.hist, opNames[op])
	c := s.col.Col()
	if p := core.Recover(func() {
		switch op {
		case opAppend, opAppendSeen:
			var v ref.Val
			if op == opAppendSeen && len(s.seen) > 0 {
				v = s.seen[s.rng.Intn(len(s.seen))]
			} else {
				v = val.GenColumn(s.rng, s.t, 1, val.GenOpt{MaxElem: 3})[0]
				s.seen = append(s.seen, v)
			}
			s.col.Append(v)
			s.model = append(s.model, v)
		case opAppendMany:
			n := 260 + s.rng.Intn(60)
			vs := val.GenColumn(s.rng, s.t, n, val.GenOpt{Dict: 258, MaxElem: 2})
			for _, v := range vs {
				s.col.Append(v)
			}
			s.model = append(s.model, vs...)
		case opReset:
			c.Reset()
			s.model = s.model[:0]
			s.dirty = false
		case opPrepare:
			s.prepare()
		case opInfer:
			if inf, ok := c.(proto.Inferable); ok {
				if err := inf.Infer(proto.ColumnType(s.ts)); err != nil {
					s.fail("infer-error", fmt.Sprintf("Infer(%q): %v", s.ts, err))
				}
			}
		case opEncode:
			if !s.prepare() {
				return
			}
			var b proto.Buffer
			if len(s.model) > 0 {
				if se, ok := c.(proto.StateEncoder); ok {
					se.EncodeState(&b)
				}
			}
			c.EncodeColumn(&b)
			s.enc++
			s.checkWire("EncodeColumn", b.Buf)
		case opWrite:
			if !s.prepare() {
				return
			}
			var sink bytes.Buffer
			w := proto.NewWriter(&sink, new(proto.Buffer))
			if len(s.model) > 0 {
				if se, ok := c.(proto.StateEncoder); ok {
					w.ChainBuffer(se.EncodeState)
				}
			}
			c.WriteColumn(w)
			if _, err := w.Flush(); err != nil {
				s.fail("flush", err.Error())
				return
			}
			s.enc++
			s.checkWire("WriteColumn+Flush", sink.Bytes())
		case opRawBlock:
			blk := proto.Block{Columns: 1, Rows: len(s.model)}
			var b proto.Buffer
			if err := blk.EncodeRawBlock(&b, 54460, []proto.InputColumn{{Name: "c", Data: c}}); err != nil {
				s.fail("EncodeRawBlock", err.Error())
				return
			}
			s.enc++
			rr := &ref.R{B: b.Buf}
			rb, err := decodeRawBlock(rr)
			if err != nil || rr.Left() != 0 {
				s.fail("encode-undecodable", fmt.Sprintf("EncodeRawBlock: reference decoder: %v (left %d)", err, rr.Left()))
				return
			}
			if len(s.model) > 0 {
				if d := diffVals(s.model, rb.Cols[0].Vals); d != "" {
					s.fail("encode-content", "EncodeRawBlock: "+d)
				}
			}
		case opDecode, opDecodeTrunc:
			n := []int{0, 1, 2, 5, 9, 40}[s.rng.Intn(6)]
			opt := val.GenOpt{MaxElem: 3}
			if s.rng.Intn(5) == 0 {
				n, opt.Dict = 300, 258
			}
			vs := val.GenColumn(s.rng, s.t, n, opt)
			var w ref.W
			if n > 0 {
				ref.EncodeState(&w, s.t)
			}
			lc := &ref.LCOpts{KeyWidth: []int{0, 0, 1, 2, 4, 8}[s.rng.Intn(6)]}
			ref.EncodeColumn(&w, s.t, vs, lc)
			data := w.B
			if op == opDecodeTrunc {
				if len(data) < 2 {
					s.hist[len(s.hist)-1] += "(skipped)"
					return
				}
				data = data[:1+s.rng.Intn(len(data)-1)]
			}
			c.Reset()
			s.model = s.model[:0]
			rd := proto.NewReader(bytes.NewReader(data))
			var err error
			if n > 0 {
				if sd, ok := c.(proto.StateDecoder); ok {
					err = sd.DecodeState(rd)
				}
				if err == nil {
					err = c.DecodeColumn(rd, n)
				}
			}
			if op == opDecodeTrunc {
				if err == nil && n > 0 {
					// C07's business; here only the state matters
					s.dirty = true
					return
				}
				s.dirty = true
				return
			}
			if err != nil {
				s.fail("decode-error", fmt.Sprintf("Reset + DecodeColumn of valid data (%d rows, key width %d) failed: %v", n, lc.KeyWidth, err))
				return
			}
			s.model = append(s.model, vs...)
			s.hist[len(s.hist)-1] += fmt.Sprintf("(%d rows,kw=%d)", n, lc.KeyWidth)
			if len(s.hist) > 1 {
				s.decAft = true
			}
		case opAppendArr:
			// the bulk append (what Array(T).Append uses for its elements), incl. zero values
			aa, can := s.col.(val.ArrAppender)
			if !can {
				s.hist[len(s.hist)-1] += "(skipped)"
				return
			}
			n := []int{0, 1, 2, 5, 9}[s.rng.Intn(5)]
			vs := val.GenColumn(s.rng, s.t, n, val.GenOpt{MaxElem: 3})
			for i := range vs {
				if s.rng.Intn(3) == 0 && len(vs[i].B) > 0 && !vs[i].IsL && !vs[i].Null && len(s.t.Args) == 0 && s.t.Width() > 0 && s.t.Base != "Enum8" && s.t.Base != "Enum16" {
					vs[i] = ref.Leaf(make([]byte, len(vs[i].B))) // the all-zero value of a fixed-width leaf
				}
			}
			aa.AppendArr(vs)
			s.model = append(s.model, vs...)
			s.hist[len(s.hist)-1] += fmt.Sprintf("(%d)", n)
		case opSetInPlace:
			// rows rewritten through the column's exported memory (no Reset, same row count)
			st, can := s.col.(val.Setter)
			if !can || len(s.model) == 0 {
				s.hist[len(s.hist)-1] += "(skipped)"
				return
			}
			for k := 0; k < 1+s.rng.Intn(3); k++ {
				i := s.rng.Intn(len(s.model))
				v := val.GenColumn(s.rng, s.t, 1, val.GenOpt{MaxElem: 3})[0]
				if !st.Set(i, v) {
					s.hist[len(s.hist)-1] += "(skipped)"
					return
				}
				s.model[i] = v
			}
		case opDecodeBlock:
			// a whole result block bound to the column through Results: the library resets the
			// target itself, also for a block that has columns but no rows
			n := []int{0, 0, 1, 2, 5}[s.rng.Intn(5)]
			vs := val.GenColumn(s.rng, s.t, n, val.GenOpt{MaxElem: 3})
			rev := []int{54460, 54453, 51902}[s.rng.Intn(3)]
			var w ref.W
			if err := ref.EncodeBlock(&w, rev, &ref.Block{Info: ref.BlockInfo{Bucket: -1}, Rows: n, Cols: []ref.Col{{Name: "c", Type: s.ts, Vals: vs}}}); err != nil {
				s.hist[len(s.hist)-1] += "(skipped)"
				return
			}
			var blk proto.Block
			err := blk.DecodeBlock(proto.NewReader(bytes.NewReader(w.B)), rev, proto.Results{{Name: "c", Data: c}})
			s.model = s.model[:0]
			if err != nil {
				s.fail("decode-block-error", fmt.Sprintf("DecodeBlock of a valid %d-row block (rev %d) into the bound column failed: %v", n, rev, err))
				return
			}
			s.model = append(s.model, vs...)
			s.hist[len(s.hist)-1] += fmt.Sprintf("(%d rows)", n)
			if len(s.hist) > 1 {
				s.decAft = true
			}
		}
	}); p != "" {
		s.fail("panic", p)
		return
	}
	s.checkContents("after " + opNames[op])
}

// decodeRawBlock decodes columns/rows + columns with the custom serialization flag (rev 54460).
func decodeRawBlock(r *ref.R) (*ref.Block, error) {
	// a raw block is a block without BlockInfo: prepend nothing, parse with the full decoder minus info
	nc, err := r.UVarint()
	if err != nil {
		return nil, err
	}
	nr, err := r.UVarint()
	if err != nil {
		return nil, err
	}
	b := &ref.Block{Rows: int(nr)}
	for i := 0; i < int(nc); i++ {
		name, err := r.Str()
		if err != nil {
			return nil, err
		}
		ts, err := r.Str()
		if err != nil {
			return nil, err
		}
		if f, err := r.U8(); err != nil || f != 0 {
			return nil, fmt.Errorf("custom serialization flag %d (%v)", f, err)
		}
		c := ref.Col{Name: name, Type: ts}
		if b.Rows > 0 {
			t, err := ref.ParseType(ts)
			if err != nil {
				return nil, err
			}
			if err := ref.DecodeState(r, t); err != nil {
				return nil, err
			}
			if c.Vals, err = ref.DecodeColumn(r, t, b.Rows); err != nil {
				return nil, err
			}
		}
		b.Cols = append(b.Cols, c)
	}
	return b, nil
}

func c16Run(r *core.Run, idx int64, ts string, mk func() (val.LibCol, error), ops []int, random int) {
	t, err := ref.ParseType(ts)
	if err != nil {
		return
	}
	col, err := mk()
	if err != nil {
		r.Note("skipped: " + err.Error())
		return
	}
	s := &c16State{r: r, col: col, t: t, ts: ts, rng: r.Rand(idx, "c16")}
	r.Eval()
	r.CaseLog(fmt.Sprintf("%d %s %s %v", idx, ts, col.Kind(), ops))
	if ops != nil {
		for _, op := range ops {
			s.apply(op)
		}
	} else {
		many := 0
		for i := 0; i < random && !s.bad; i++ {
			op := s.rng.Intn(nOps16 + 3)
			if op == nOps16 {
				op = opDecodeBlock
			} else if op == nOps16+1 {
				op = opSetInPlace
			} else if op == nOps16+2 {
				op = opAppendArr
			}
			if s.dirty {
				op = opReset
			}
			if op == opAppendMany {
				many++
				if many > 2 || !strings.Contains(ts, "LowCardinality") {
					op = opAppend
				}
			}
			if s.rng.Intn(3) == 0 {
				op = opAppend
			}
			s.apply(op)
		}
	}
	if s.enc >= 2 || s.decAft {
		r.NonTrivial(ts, col.Kind(), strings.Join(s.hist, ","), r.Build)
	}
	r.SetAdd("type_shapes", typeSite(t))
	if idx%97 == 0 {
		r.Sample(map[string]any{"type": ts, "kind": col.Kind(), "history": s.hist})
	}
}

func c16(r *core.Run) {
	var ci int64
	// random histories over the catalogue
	per := r.Pick(4, 40)
	for _, e := range val.Catalogue {
		for k := 0; k < per; k++ {
			ci++
			if !r.Take(ci) {
				continue
			}
			e := e
			c16Run(r, ci, e.Type, func() (val.LibCol, error) { return e.New(), nil }, nil, 40)
		}
	}
	// random histories over boxed compositions
	for k := 0; k < r.Pick(400, 10000); k++ {
		ci++
		if !r.Take(ci) {
			continue
		}
		rng := r.Rand(ci, "type")
		ts := val.GenType(rng, 1+rng.Intn(3))
		t, err := ref.ParseType(ts)
		if err != nil {
			continue
		}
		seed := rng.Int63()
		c16Run(r, ci, ts, func() (val.LibCol, error) { return val.Build(t, rand.New(rand.NewSource(seed)).Intn) }, nil, 40)
	}
	// ColEnum re-inferred between blocks (renumbered / widened / extended definitions)
	for k := 0; k < r.Pick(3000, 60000); k++ {
		ci++
		if !r.Take(ci) {
			continue
		}
		c16EnumReinfer(r, ci)
	}
	// ColAuto bound as a target across valid and failing blocks
	for k := 0; k < r.Pick(3000, 60000); k++ {
		ci++
		if !r.Take(ci) {
			continue
		}
		c16AutoTarget(r, ci)
	}
	// ColDateTime64 meeting blocks of changing precision / zone while still filled
	for k := 0; k < r.Pick(2000, 40000); k++ {
		ci++
		if !r.Take(ci) {
			continue
		}
		c16DT64Reinfer(r, ci)
	}
	// exhaustive short histories over a reduced alphabet for the stateful column kinds
	alpha := []int{opAppend, opAppendSeen, opAppendArr, opEncode, opReset, opDecode, opDecodeBlock, opSetInPlace, opAppendMany}
	L := r.Pick(4, 5)
	types := []string{"LowCardinality(String)", "Array(LowCardinality(String))", "Enum8('hello' = 1, 'world' = 2, 'x y' = -5)", "String", "Array(String)", "Map(String, String)", "Nullable(String)", "DateTime64(3)", "Map(LowCardinality(String), Array(String))"}
	for _, ts := range types {
		var e *val.Entry
		for i := range val.Catalogue {
			if val.Catalogue[i].Type == ts {
				e = &val.Catalogue[i]
				break
			}
		}
		if e == nil {
			continue
		}
		na := len(alpha)
		if !strings.Contains(ts, "LowCardinality") {
			na-- // AppendMany only matters for dictionaries
		}
		total := 1
		for i := 0; i < L; i++ {
			total *= na
		}
		for h := 0; h < total; h++ {
			ci++
			if !r.Take(ci) {
				continue
			}
			ops := make([]int, 0, L+1)
			x := h
			for i := 0; i < L; i++ {
				ops = append(ops, alpha[x%na])
				x /= na
			}
			ops = append(ops, opEncode)
			ee := *e
			c16Run(r, ci, ts, func() (val.LibCol, error) { return ee.New(), nil }, ops, 0)
		}
		r.SetAdd("exhaustive_types", ts)
	}
}
