package props

import (
	"context"
	"errors"
	"fmt"
	"io"
	"math/rand"
	"strings"
	"time"

	"github.com/ClickHouse/ch-go"
	"github.com/ClickHouse/ch-go/proto"

	"verif/internal/core"
	"verif/internal/ref"
	"verif/internal/simnet"
	"verif/internal/val"
)

func init() {
	Registry["C09"] = Spec{
		Fn:          c09,
		Level:       "exploration",
		Rule:        "callback histories over {append, reset+append (reuses the backing memory), overwrite in place (same row count, no Reset: slice-typed columns and the Values of LowCardinality / Enum written through their exported memory), hand-over of other column objects (Input[i].Data replaced inside the callback, also together with io.EOF and leftover rows), return nil unchanged, return nil after emptying the columns (a round without rows), io.EOF without rows, io.EOF with leftover rows, wrapped io.EOF with rows, other error}, initial rows zero or not: exhaustive up to 3 rounds before the terminal step for a fixed list of column sets (zero-copy: fixed-width integers, FixedString, ColRawOf, Bool, Float; copying: String, UUID, LowCardinality, Enum, Array, Map, Nullable) and random longer histories over random column sets from the whole catalogue, x {Disabled, None, LZ4, LZ4HC, ZSTD} x block sizes 1..3000 rows x server revisions on both sides of the block-layout thresholds. Oracle: the Data blocks parsed by the reference codec from the bytes copied at Write time must equal [snapshot of the columns at the start of each round] + [one empty terminator] (tail rows on EOF included; nothing after a callback error except an optional Cancel). Non-trivial = >=2 rounds or a tail block; distinct = (history, column set, compression, rows)",
		Assumptions: []string{"snapshots are taken by the harness inside OnInput before it mutates the columns", "Write calls are recorded by copying the bytes at call time"},
		MinDistinct: 300,
	}
}

const (
	hAppend = iota
	hResetAppend
	hNil
	hEOFEmpty
	hEOFRows
	hWrappedEOF
	hError
	hNilBlank    // reset the columns and return nil: a round without rows
	hOverwrite   // overwrite the rows in place (same row count, no Reset) through the columns' exported memory
	hSwap        // hand over other column objects (double buffering): Input[i].Data replaced, the old ones reset
	hSwapEOFRows // the same, returning io.EOF with the new objects holding the leftover rows
)

var hNames = []string{"append", "reset+append", "nil-unchanged", "EOF(no rows)", "EOF(leftover rows)", "wrapped-EOF(rows)", "error", "nil-blank-round", "overwrite-in-place", "swap-column-objects", "swap-column-objects+EOF(leftover rows)"}

var errUser = errors.New("verif: user input error")

var c09Sets = [][]string{
	{"UInt64"}, {"Int8", "UInt32"}, {"FixedString(5)"}, {"FixedString(6)"}, {"Bool", "Float64"}, {"FixedString(16)", "Int128"},
	{"String"}, {"UUID", "String"}, {"LowCardinality(String)"}, {"Enum8('hello' = 1, 'world' = 2, 'x y' = -5)"}, {"Array(UInt32)", "Map(String, String)"}, {"Nullable(Int64)", "DateTime64(3)"},
	{"UInt64", "String", "LowCardinality(String)"},
}

func findEntry(ts string) *val.Entry {
	for i := range val.Catalogue {
		if val.Catalogue[i].Type == ts {
			return &val.Catalogue[i]
		}
	}
	return nil
}

func c09(r *core.Run) {
	var ci int64
	// exhaustive short histories
	nonTerm := []int{hAppend, hResetAppend, hNil, hNilBlank, hOverwrite, hSwap}
	term := []int{hEOFEmpty, hEOFRows, hWrappedEOF, hError, hSwapEOFRows}
	var hists [][]int
	var rec func(prefix []int, depth int)
	rec = func(prefix []int, depth int) {
		for _, t := range term {
			hists = append(hists, append(append([]int(nil), prefix...), t))
		}
		if depth == 0 {
			return
		}
		for _, n := range nonTerm {
			rec(append(append([]int(nil), prefix...), n), depth-1)
		}
	}
	rec(nil, r.Pick(2, 3))
	for si, set := range c09Sets {
		for hi, h := range hists {
			for _, init := range []bool{false, true} {
				ci++
				if !r.Take(ci) {
					continue
				}
				rng := r.Rand(ci, "c09")
				comp := c02Compressions[(si+hi)%len(c02Compressions)]
				rows := []int{1, 2, 9, 100, 130}[rng.Intn(5)]
				c09Run(r, ci, rng, set, h, init, comp, rows)
			}
		}
	}
	// random longer histories over random column sets
	n := r.Pick(500, 15000)
	for k := 0; k < n; k++ {
		ci++
		if !r.Take(ci) {
			continue
		}
		rng := r.Rand(ci, "c09r")
		var set []string
		for i := 0; i < 1+rng.Intn(3); i++ {
			set = append(set, val.Catalogue[rng.Intn(len(val.Catalogue))].Type)
		}
		var h []int
		for i := 0; i < rng.Intn(7); i++ {
			h = append(h, nonTerm[rng.Intn(len(nonTerm))])
		}
		h = append(h, term[rng.Intn(len(term))])
		rows := []int{1, 3, 10, 64, 120, 500, 3000}[rng.Intn(7)]
		c09Run(r, ci, rng, set, h, rng.Intn(2) == 0, c02Compressions[rng.Intn(len(c02Compressions))], rows)
	}
}

func c09Run(r *core.Run, ci int64, rng *rand.Rand, set []string, hist []int, initRows bool, comp ch.Compression, rows int) {
	type colS struct {
		name string
		e    *val.Entry
		t    *ref.Type
		col  val.LibCol
	}
	var cols []colS
	for i, ts := range set {
		e := findEntry(ts)
		if e == nil {
			return
		}
		t, _ := ref.ParseType(ts)
		cols = append(cols, colS{fmt.Sprintf("c%d", i), e, t, e.New()})
	}
	var hs []string
	for _, h := range hist {
		hs = append(hs, hNames[h])
	}
	desc := map[string]any{"columns": set, "history": hs, "initial_rows": initRows, "compression": comp.String(), "rows_per_round": rows}
	r.CaseLog(fmt.Sprintf("%d %v", ci, desc))
	r.Eval()
	appendRows := func(n int) {
		for _, c := range cols {
			for _, v := range val.GenColumn(rng, c.t, n, val.GenOpt{MaxElem: 2}) {
				c.col.Append(v)
			}
		}
	}
	reset := func() {
		for _, c := range cols {
			c.col.Col().Reset()
		}
	}
	snapshot := func() [][]ref.Val {
		out := make([][]ref.Val, len(cols))
		for i, c := range cols {
			out[i] = readAll(c.col)
		}
		return out
	}
	var expect [][][]ref.Val // expected blocks (per block: per column values)
	if initRows {
		appendRows(rows)
	}
	var input proto.Input
	for _, c := range cols {
		input = append(input, proto.InputColumn{Name: c.name, Data: c.col.Col()})
	}
	step := 0
	wantErr := false
	var cbErr error
	ended := false
	// model: what the callback does and what must have been sent
	onInput := func(ctx context.Context) error {
		// the block sent just before this call held the contents as they are now
		if cols[0].col.Col().Rows() > 0 || step > 0 || initRows {
			if !(step == 0 && !initRows) {
				expect = append(expect, snapshot())
			}
		}
		if step >= len(hist) {
			ended = true
			return io.EOF
		}
		op := hist[step]
		step++
		switch op {
		case hAppend:
			appendRows(rows)
			return nil
		case hResetAppend:
			reset()
			appendRows(rows)
			return nil
		case hNil:
			if cols[0].col.Col().Rows() == 0 {
				appendRows(rows) // a block needs rows; the first fetch must provide some
			}
			return nil
		case hNilBlank:
			reset()
			return nil
		case hSwap, hSwapEOFRows:
			// a double-buffered producer: the callback installs other column objects (already
			// filled) and recycles the old ones
			for i := range cols {
				old := cols[i].col
				cols[i].col = cols[i].e.New()
				input[i].Data = cols[i].col.Col()
				old.Col().Reset()
			}
			appendRows(rows)
			r.Count("rounds_with_swapped_column_objects", 1)
			if op == hSwapEOFRows {
				expect = append(expect, snapshot())
				ended = true
				return io.EOF
			}
			return nil
		case hOverwrite:
			n := cols[0].col.Col().Rows()
			if n == 0 {
				appendRows(rows)
				return nil
			}
			for _, c := range cols {
				vs := val.GenColumn(rng, c.t, n, val.GenOpt{MaxElem: 2})
				st, can := c.col.(val.Setter)
				done := can
				for i := 0; done && i < n; i++ {
					done = st.Set(i, vs[i])
				}
				if done {
					r.Count("rounds_overwritten_in_place", 1)
					continue
				}
				// no exported row memory: same number of rows through Reset + Append
				c.col.Col().Reset()
				for _, v := range vs {
					c.col.Append(v)
				}
			}
			return nil
		case hEOFEmpty:
			reset()
			ended = true
			return io.EOF
		case hEOFRows:
			reset()
			appendRows(rows + 1)
			expect = append(expect, snapshot()) // the tail
			ended = true
			return io.EOF
		case hWrappedEOF:
			reset()
			appendRows(2)
			expect = append(expect, snapshot())
			ended = true
			return fmt.Errorf("no more input: %w", io.EOF)
		default:
			wantErr = true
			// whatever the error looks like (also io.ErrUnexpectedEOF from a source cut mid-record, or
			// an unrelated error whose text is "EOF"), it is not the end of input
			cbErr = errUser
			switch step % 3 {
			case 1:
				reset()
				appendRows(2)
				cbErr = fmt.Errorf("read record: %w", io.ErrUnexpectedEOF)
			case 2:
				cbErr = errors.New("EOF")
			}
			return cbErr
		}
	}
	// the server's revision: mostly current, sometimes below the thresholds that change the block
	// layout (54454 custom-serialization flag, 51903 block info)
	srvRev := []int{54460, 54460, 54476, 54453, 54449, 54429, 51903, 51902}[rng.Intn(8)]
	neg := min(srvRev, 54460)
	desc["server_rev"] = srvRev
	script := &simnet.Script{Rev: srvRev}
	sim := newSim(script)
	compressed := comp != ch.CompressionDisabled
	script.OnQuery = func(rq *ref.Query) []simnet.Item {
		hdr := &ref.Block{}
		for _, c := range cols {
			hdr.Cols = append(hdr.Cols, ref.Col{Name: c.name, Type: c.e.Type})
		}
		return []simnet.Item{{Data: simnet.PacketData(neg, ref.ServerDataCode, hdr, rq.Compression == 1, ref.MethodLZ4)}}
	}
	script.OnDataEnd = func() []simnet.Item { return []simnet.Item{{Data: simnet.PacketEnd()}} }
	sim.Srv.InputExpected = func(*ref.Query) bool { return true }
	ctx, cancel := context.WithTimeout(context.Background(), 20*time.Second)
	defer cancel()
	var cerr, derr error
	ok := runWithWatchdog(40*time.Second, func() {
		if cerr = sim.connect(ctx, ch.Options{Compression: comp, ReadTimeout: 200 * time.Millisecond}); cerr != nil {
			return
		}
		derr = sim.Client.Do(ctx, ch.Query{Body: "INSERT INTO t VALUES", Input: input, OnInput: onInput})
	})
	fail := func(class, msg string) {
		r.Violation(class, fmt.Sprintf("%s | columns %v, history %v, initial rows %v, %s, %d rows/round", msg, set, hs, initRows, comp, rows), desc)
	}
	if !ok {
		r.Inconclusive(fmt.Sprintf("case %d did not return", ci))
		return
	}
	if cerr != nil {
		fail("handshake-failed", cerr.Error())
		return
	}
	defer sim.Client.Close()
	_ = compressed
	if sim.Srv.Err != nil {
		fail("malformed-client-stream:"+errSite(sim.Srv.Err), fmt.Sprintf("server-side parse error: %v (Do returned %v)", sim.Srv.Err, derr))
		return
	}
	// blocks received
	var got []*ref.Block
	afterQuery := false
	terminators := 0
	cancels := 0
	seenExtEnd := false
	for _, p := range sim.Srv.Packets {
		switch p.Kind {
		case "query":
			afterQuery = true
		case "data":
			if !afterQuery {
				continue
			}
			if !seenExtEnd {
				seenExtEnd = true // the external-data terminator
				continue
			}
			if len(p.Block.Cols) == 0 && p.Block.Rows == 0 {
				terminators++
				continue
			}
			if terminators > 0 {
				fail("block-after-terminator", "a data block was sent after the terminator")
			}
			got = append(got, p.Block)
		case "cancel":
			cancels++
		}
	}
	if wantErr {
		if derr == nil || !errors.Is(derr, cbErr) {
			fail("callback-error-lost", fmt.Sprintf("the input callback failed but Do returned %v", derr))
		}
		if terminators > 0 {
			fail("terminator-after-callback-error", "the terminator block was sent although the callback failed")
		}
	} else {
		if derr != nil {
			fail("do-failed", fmt.Sprintf("Do returned %v", derr))
			return
		}
		if terminators != 1 {
			fail("terminator-count", fmt.Sprintf("%d terminator blocks, want exactly 1", terminators))
		}
		if !ended {
			fail("callback-not-run-to-end", "Do returned before the input ended")
		}
	}
	if len(got) != len(expect) {
		fail("block-count", fmt.Sprintf("server received %d input blocks, the callback history implies %d", len(got), len(expect)))
		return
	}
	for bi, b := range got {
		if len(b.Cols) != len(cols) {
			fail("block-shape", fmt.Sprintf("block %d has %d columns", bi, len(b.Cols)))
			return
		}
		for j, c := range cols {
			if b.Cols[j].Name != c.name {
				fail("block-column-name", fmt.Sprintf("block %d column %d is %q", bi, j, b.Cols[j].Name))
			}
			if d := diffVals(expect[bi][j], b.Cols[j].Vals); d != "" {
				cls := "copying"
				if isZeroCopy(c.e.Kind) {
					cls = "zero-copy"
				}
				fail("block-content:"+cls+":"+typeSite(c.t), fmt.Sprintf("block %d of %d, column %q (%s): bytes on the wire differ from the column contents when that round began: %s", bi, len(got), c.name, c.e.Type, d))
				return
			}
		}
	}
	if len(got) >= 2 || hist[len(hist)-1] == hEOFRows || hist[len(hist)-1] == hWrappedEOF {
		r.NonTrivial(strings.Join(hs, ","), strings.Join(set, ","), comp, rows, initRows)
	}
	r.Count("input_blocks_checked", int64(len(got)))
	r.SetAdd("compressions", comp.String())
	if ci%200 == 0 {
		r.Sample(map[string]any{"case": desc, "blocks": len(got), "terminators": terminators})
	}
}

func isZeroCopy(kind string) bool {
	for _, s := range []string{"ColStr", "ColBytes", "ColUUID", "LowCardinality", "ColEnum(", "JSON", "Nullable", "Array", "Map"} {
		if strings.Contains(kind, s) {
			return false
		}
	}
	return true
}
