package props

import (
	"fmt"
	"io"
	"math/rand"

	"github.com/ClickHouse/ch-go/proto"

	"verif/internal/ref"
)

// msgCase: one library-encoded protocol message with a decoder that returns a printable
// result (so that outcomes can be compared across segmentations) or an error.
type msgCase struct {
	Name   string
	Rev    int
	Bytes  []byte
	Decode func(r io.Reader) (string, error)
}

func genMessages(rng *rand.Rand, rev int) []msgCase {
	var out []msgCase
	add := func(name string, b []byte, dec func(rd *proto.Reader) (string, error)) {
		out = append(out, msgCase{Name: name, Rev: rev, Bytes: append([]byte(nil), b...), Decode: func(r io.Reader) (string, error) {
			return dec(proto.NewReader(r))
		}})
	}
	{
		h := proto.ClientHello{Name: c17Str(rng), Major: int(c17Int(rng)), Minor: int(c17Int(rng)), ProtocolVersion: int(c17Int(rng)), Database: c17Str(rng), User: c17Str(rng), Password: c17Str(rng)}
		var b proto.Buffer
		h.Encode(&b)
		add("ClientHello", b.Buf[1:], func(rd *proto.Reader) (string, error) {
			var d proto.ClientHello
			err := d.Decode(rd)
			return fmt.Sprintf("%+v", d), err
		})
	}
	{
		h := proto.ServerHello{Name: c17Str(rng), Major: int(c17Int(rng)), Minor: int(c17Int(rng)), Revision: int(c17Int(rng)), Timezone: c17Str(rng), DisplayName: c17Str(rng), Patch: int(c17Int(rng))}
		var b proto.Buffer
		h.EncodeAware(&b, rev)
		add("ServerHello", b.Buf[1:], func(rd *proto.Reader) (string, error) {
			var d proto.ServerHello
			err := d.DecodeAware(rd, rev)
			return fmt.Sprintf("%+v", d), err
		})
	}
	ci := genClientInfo(rng)
	{
		var b proto.Buffer
		libClientInfo(ci).EncodeAware(&b, rev)
		add("ClientInfo", b.Buf, func(rd *proto.Reader) (string, error) {
			var d proto.ClientInfo
			err := d.DecodeAware(rd, rev)
			return infoStr(refClientInfo(d)), err
		})
	}
	if rev >= ref.RevSettingsAsStr {
		q := proto.Query{ID: c17Str(rng), Body: c17Str(rng), Secret: c17Str(rng), Stage: proto.StageComplete, Compression: proto.Compression(rng.Intn(2)), Info: libClientInfo(ci)}
		for _, s := range genSettings(rng, false) {
			q.Settings = append(q.Settings, proto.Setting{Key: s.Key, Value: s.Value, Important: s.Flags&1 != 0, Custom: s.Flags&2 != 0, Obsolete: s.Flags&4 != 0})
		}
		for _, s := range genSettings(rng, true) {
			q.Parameters = append(q.Parameters, proto.Parameter{Key: s.Key, Value: s.Value})
		}
		var b proto.Buffer
		q.EncodeAware(&b, rev)
		add("Query", b.Buf[1:], func(rd *proto.Reader) (string, error) {
			var d proto.Query
			err := d.DecodeAware(rd, rev)
			d.Info.Span = libSpan(refSpan(d.Info.Span))
			return fmt.Sprintf("%q %q %q %v %v %+v %+v %+v", d.ID, d.Body, d.Secret, d.Stage, d.Compression, d.Settings, d.Parameters, infoStr(refClientInfo(d.Info))), err
		})
	}
	{
		var b proto.Buffer
		proto.ClientData{TableName: c17Str(rng)}.EncodeAware(&b, rev)
		if len(b.Buf) > 0 {
			add("ClientData", b.Buf, func(rd *proto.Reader) (string, error) {
				var d proto.ClientData
				err := d.DecodeAware(rd, rev)
				return fmt.Sprintf("%+v", d), err
			})
		}
	}
	{
		bi := proto.BlockInfo{Overflows: rng.Intn(2) == 0, BucketNum: int(int32(rng.Uint32()))}
		var b proto.Buffer
		bi.Encode(&b)
		add("BlockInfo", b.Buf, func(rd *proto.Reader) (string, error) {
			var d proto.BlockInfo
			err := d.Decode(rd)
			return fmt.Sprintf("%+v", d), err
		})
	}
	{
		p := proto.Progress{Rows: c17U64(rng), Bytes: c17U64(rng), TotalRows: c17U64(rng), WroteRows: c17U64(rng), WroteBytes: c17U64(rng), ElapsedNs: c17U64(rng)}
		var b proto.Buffer
		p.EncodeAware(&b, rev)
		add("Progress", b.Buf, func(rd *proto.Reader) (string, error) {
			var d proto.Progress
			err := d.DecodeAware(rd, rev)
			return fmt.Sprintf("%+v", d), err
		})
	}
	{
		p := proto.Profile{Rows: c17U64(rng), Blocks: c17U64(rng), Bytes: c17U64(rng), AppliedLimit: rng.Intn(2) == 0, RowsBeforeLimit: c17U64(rng), CalculatedRowsBeforeLimit: rng.Intn(2) == 0}
		var b proto.Buffer
		p.EncodeAware(&b, rev)
		add("Profile", b.Buf[1:], func(rd *proto.Reader) (string, error) {
			var d proto.Profile
			err := d.DecodeAware(rd, rev)
			return fmt.Sprintf("%+v", d), err
		})
	}
	{
		n := 1 + rng.Intn(4)
		var b proto.Buffer
		for i := 0; i < n; i++ {
			e := proto.Exception{Code: proto.Error(int32(c17U64(rng))), Name: c17Str(rng), Message: c17Str(rng), Stack: c17Str(rng), Nested: i != n-1}
			e.EncodeAware(&b, rev)
		}
		add("ExceptionChain", b.Buf, func(rd *proto.Reader) (string, error) {
			s := ""
			for {
				var d proto.Exception
				if err := d.DecodeAware(rd, rev); err != nil {
					return s, err
				}
				s += fmt.Sprintf("%+v;", d)
				if !d.Nested {
					return s, nil
				}
			}
		})
	}
	{
		tc := proto.TableColumns{First: c17Str(rng), Second: c17Str(rng)}
		var b proto.Buffer
		tc.EncodeAware(&b, rev)
		add("TableColumns", b.Buf[1:], func(rd *proto.Reader) (string, error) {
			var d proto.TableColumns
			err := d.DecodeAware(rd, rev)
			return fmt.Sprintf("%+v", d), err
		})
	}
	return out
}

func infoStr(c ref.ClientInfo) string {
	t := "<nil>"
	if c.Trace != nil {
		t = fmt.Sprintf("%+v", *c.Trace)
	}
	c.Trace = nil
	return fmt.Sprintf("%+v trace=%s", c, t)
}
