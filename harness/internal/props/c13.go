package props

import (
	"context"
	"errors"
	"fmt"
	"go.opentelemetry.io/otel/trace"
	"math/rand"
	"net"
	"strings"
	"time"

	"github.com/ClickHouse/ch-go"
	"github.com/ClickHouse/ch-go/proto"

	"verif/internal/core"
	"verif/internal/ref"
	"verif/internal/simnet"
	"verif/internal/val"
)

func init() {
	Registry["C13"] = Spec{
		Fn:          c13,
		Level:       "fault_enumeration",
		Rule:        "configurations: client revision x server revision over every feature-threshold neighbour (all pairs in thorough, a covering sample in quick) x credentials/database/quota-key strings (empty, long, non-UTF8) x Connect and Dial. Answers: hello; hello delayed by 1..5 read-deadline expiries (far below the handshake timeout), also arriving in pieces with pauses longer than the read timeout inside it; exception chain; every other server packet kind; garbage; the hello cut after every byte (then EOF or reset); immediate EOF; silence until a short handshake timeout. x compression {off, LZ4, ZSTD, None}. Oracle: after success the follow-up query and a follow-up INSERT of a two-column block are parsed by the reference codec at min(c,s), a Progress packet encoded at min(c,s) is decoded exactly, ServerInfo() equals the hello (fields gated by the client's revision), the addendum is present iff min(c,s) >= 54458 and has reached the server when Connect/Dial returns (before any later request), hello fields are as configured; after failure: non-nil error (carrying the exception), nil client, a dialed connection closed, no library goroutine left. Non-trivial = c != s or a failing answer; distinct = (c, s, answer kind)",
		Assumptions: []string{"handshake timeouts are real but short (150 ms) and only the returned error / closed state is judged, never elapsed time"},
		MinDistinct: 200,
	}
}

func c13(r *core.Run) {
	reps := revisionRepresentatives()
	var ci int64
	// ---- successful handshakes over revision pairs ----
	for i, c := range reps {
		for j, s := range reps {
			ci++
			if !r.Take(ci) {
				continue
			}
			if r.Quick() && (i*7+j*13+int(r.Seed))%5 != 0 && c != s && c != 54460 && s != 54460 {
				continue
			}
			rng := r.Rand(ci, "c13")
			c13Success(r, ci, rng, c, s, rng.Intn(3) == 0, 0)
		}
	}
	for k := 0; k < r.Pick(100, 2000); k++ {
		ci++
		if !r.Take(ci) {
			continue
		}
		rng := r.Rand(ci, "c13hi")
		c13Success(r, ci, rng, 54460, 54460+rng.Intn(30), rng.Intn(2) == 0, 0)
	}
	// ---- delayed hello ----
	for k := 0; k < r.Pick(60, 600); k++ {
		ci++
		if !r.Take(ci) {
			continue
		}
		rng := r.Rand(ci, "c13delay")
		c13Success(r, ci, rng, reps[rng.Intn(len(reps))], reps[rng.Intn(len(reps))], rng.Intn(2) == 0, 1+rng.Intn(5))
	}
	// ---- failing answers ----
	kinds := []string{"exception", "pong", "data", "progress", "eos", "garbage", "eof", "reset", "silence", "unknown-code"}
	for k := 0; k < r.Pick(300, 4000); k++ {
		ci++
		if !r.Take(ci) {
			continue
		}
		rng := r.Rand(ci, "c13fail")
		c13Failure(r, ci, rng, reps[rng.Intn(len(reps))], reps[rng.Intn(len(reps))], kinds[k%len(kinds)], -1, rng.Intn(2) == 0)
	}
	// hello cut after every byte
	for _, crev := range []int{54460, 54058, 54371, 54401, 50263} {
		var w ref.W
		ref.ServerHello{Name: "SimServer", Major: 24, Minor: 3, Revision: 54460, Timezone: "UTC", DisplayName: "sim", Patch: 7}.Encode(&w, crev)
		for cut := 1; cut < len(w.B); cut++ {
			for _, dial := range []bool{false, true} {
				ci++
				if !r.Take(ci) {
					continue
				}
				rng := r.Rand(ci, "c13cut")
				c13Failure(r, ci, rng, crev, 54460, "cut", cut, dial)
			}
		}
	}
}

func c13Opts(rng *rand.Rand, crev int) ch.Options {
	return ch.Options{User: c17Str(rng), Password: c17Str(rng), Database: c17Str(rng), QuotaKey: c17Str(rng), ProtocolVersion: crev,
		ReadTimeout: 2 * time.Second, HandshakeTimeout: 20 * time.Second, Address: "sim:9000"}
}

func c13Success(r *core.Run, ci int64, rng *rand.Rand, crev, srev int, dial bool, delay int) {
	neg := crev
	if srev < neg {
		neg = srev
	}
	opt := c13Opts(rng, crev)
	hello := ref.ServerHello{Name: c17Str(rng), Major: c17Int(rng) % (1 << 31), Minor: c17Int(rng) % (1 << 31), Revision: uint64(srev), Timezone: c17Str(rng), DisplayName: c17Str(rng), Patch: c17Int(rng) % (1 << 31)}
	script := &simnet.Script{Rev: srev}
	sim := newSim(script)
	sim.Srv.Hello = hello
	if delay > 0 {
		opt.ReadTimeout = 50 * time.Millisecond
		// every other timeout far below the delay: only HandshakeTimeout may bound the hello
		opt.DialTimeout = 20 * time.Millisecond
		realDelay := ci%2 == 0
		if realDelay {
			// the hello really arrives later than ReadTimeout and DialTimeout (60 ms vs 10/20 ms)
			opt.ReadTimeout = 10 * time.Millisecond
		}
		script.Hello = func(ref.ClientHello) []simnet.Item {
			var items []simnet.Item
			for i := 0; i < delay; i++ {
				items = append(items, simnet.Item{Timeout: true})
			}
			if realDelay {
				items = append(items, simnet.Item{Gate: "hello-delay", Hold: true})
				time.AfterFunc(60*time.Millisecond, func() { sim.Conn.Release("hello-delay") })
			}
			hb := sim.Srv.ServerHelloBytes(crev)
			if ci%3 == 0 && len(hb) > 2 {
				// the hello itself arrives in pieces with pauses longer than ReadTimeout between them
				// (virtual expiries: they fire only if a read deadline is still armed inside the packet)
				a := 1 + int(ci/3)%(len(hb)-1)
				items = append(items, simnet.Item{Data: hb[:1]}, simnet.Item{Timeout: true})
				if a > 1 {
					items = append(items, simnet.Item{Data: hb[1:a]}, simnet.Item{Timeout: true})
				}
				return append(items, simnet.Item{Data: hb[a:]})
			}
			return append(items, simnet.Item{Data: hb})
		}
	}
	prog := ref.Progress{Rows: 1 + c17U64(rng)%1000, Bytes: c17U64(rng) % 100000, TotalRows: 7, WroteRows: 11, WroteBytes: 13, ElapsedNs: 17}
	// compression on in half of the cases: data blocks take another encoder path, which must
	// follow the negotiated revision just the same
	if ci%2 == 1 {
		opt.Compression = []ch.Compression{ch.CompressionLZ4, ch.CompressionZSTD, ch.CompressionNone}[int(ci/2)%3]
	}
	script.OnQuery = func(rq *ref.Query) []simnet.Item {
		if rq.Body == "SELECT auto" {
			// a result read through inference (Results.Auto): header, three rows, end
			blk := func(n int) *ref.Block {
				b := &ref.Block{Rows: n, Info: ref.BlockInfo{Bucket: -1}, Cols: []ref.Col{{Name: "n", Type: "UInt8"}, {Name: "s", Type: "String"}}}
				for i := 0; i < n; i++ {
					b.Cols[0].Vals = append(b.Cols[0].Vals, ref.Leaf([]byte{byte(i * 7)}))
					b.Cols[1].Vals = append(b.Cols[1].Vals, ref.Leaf([]byte{byte('a' + i)}))
				}
				return b
			}
			z := rq.Compression == 1
			return []simnet.Item{{Data: simnet.PacketData(neg, ref.ServerDataCode, blk(0), z, ref.MethodLZ4)}, {Data: simnet.PacketData(neg, ref.ServerDataCode, blk(3), z, ref.MethodLZ4)}, {Data: simnet.PacketEnd()}}
		}
		if strings.HasPrefix(rq.Body, "INSERT") {
			hdr := &ref.Block{Cols: []ref.Col{{Name: "n", Type: "UInt64"}, {Name: "s", Type: "String"}}}
			return []simnet.Item{{Data: simnet.PacketData(neg, ref.ServerDataCode, hdr, rq.Compression == 1, ref.MethodLZ4)}}
		}
		return []simnet.Item{{Data: simnet.PacketProgress(neg, prog)}, {Data: simnet.PacketEnd()}}
	}
	script.OnDataEnd = func() []simnet.Item { return []simnet.Item{{Data: simnet.PacketEnd()}} }
	sim.Srv.InputExpected = func(rq *ref.Query) bool { return strings.HasPrefix(rq.Body, "INSERT") }
	desc := map[string]any{"client_rev": crev, "server_rev": srev, "dial": dial, "delay_timeouts": delay, "compression": opt.Compression.String()}
	r.CaseLog(fmt.Sprintf("%d success %v", ci, desc))
	r.Eval()
	if crev != srev {
		r.NonTrivial("ok", crev, srev, dial, delay > 0)
	}
	r.SetAdd("negotiated", fmt.Sprint(neg))
	fail := func(class, msg string) {
		r.Violation(class, fmt.Sprintf("%s [client rev %d, server rev %d, dial=%v, delayed by %d read timeouts]", msg, crev, srev, dial, delay), desc)
	}
	ctx, cancel := context.WithTimeout(context.Background(), 30*time.Second)
	defer cancel()
	// every second case the follow-up queries run inside a span: the trace context goes into the
	// Query packet only at revisions that define the field
	var span *ref.Trace
	if ci%2 == 0 {
		span = &ref.Trace{State: []string{"", "k=v"}[(ci/2)%2], Flags: 1}
		for i := range span.TraceID {
			span.TraceID[i] = byte(ci) + byte(i)*7 | 1
		}
		for i := range span.SpanID {
			span.SpanID[i] = byte(ci>>3) + byte(i)*5 | 1
		}
		ctx = trace.ContextWithSpanContext(ctx, libSpan(span))
	}
	var client *ch.Client
	var err error
	var gotProg *proto.Progress
	var derr, perr, ierr, aerr error
	var autoRows int
	var autoVals string
	var atReturn []string
	ok := runWithStuckWatchdog(40*time.Second, func() {
		if dial {
			opt.Dialer = &simDialer{mk: func(int) (*simnet.Conn, error) { return sim.Conn, nil }}
			client, err = ch.Dial(ctx, opt)
		} else {
			client, err = ch.Connect(ctx, sim.Conn, opt)
		}
		if err != nil {
			return
		}
		// what the server has received at the moment the handshake reports success
		for _, p := range sim.Srv.Packets {
			atReturn = append(atReturn, p.Kind)
		}
		perr = client.Ping(ctx)
		derr = client.Do(ctx, ch.Query{Body: "SELECT 1", QuotaKey: "qk", OnProgress: func(ctx context.Context, p proto.Progress) error {
			gotProg = &p
			return nil
		}})
		if derr == nil {
			var ares proto.Results
			aerr = client.Do(ctx, ch.Query{Body: "SELECT auto", Result: ares.Auto(), OnResult: func(ctx context.Context, b proto.Block) error {
				if b.Rows == 0 {
					return nil
				}
				autoRows += b.Rows
				if len(ares) == 2 && ares[0].Data.Rows() == 3 && ares[1].Data.Rows() == 3 {
					t8, _ := ref.ParseType("UInt8")
					if vs, err := val.ReadCol(ares[0].Data, t8); err == nil {
						var xs []uint8
						for _, v := range vs {
							xs = append(xs, v.B[0])
						}
						autoVals = fmt.Sprint(xs)
					}
				}
				return nil
			}})
		}
		if derr == nil {
			// a block with columns in the other direction, at the same revision
			cn, cs := new(proto.ColUInt64), new(proto.ColStr)
			for i := 0; i < 3; i++ {
				cn.Append(uint64(i) * 7)
				cs.Append(fmt.Sprintf("row %d", i))
			}
			ierr = client.Do(ctx, ch.Query{Body: "INSERT INTO t VALUES", Input: proto.Input{{Name: "n", Data: cn}, {Name: "s", Data: cs}}})
		}
	})
	if !ok {
		r.Inconclusive(fmt.Sprintf("case %d did not return", ci))
		return
	}
	if err != nil {
		cls := "handshake-rejected"
		if delay > 0 {
			cls = "delayed-hello-rejected"
		}
		fail(cls, "handshake failed: "+err.Error())
		return
	}
	defer client.Close()
	if sim.Srv.Err != nil {
		fail("client-stream-not-at-negotiated-revision", fmt.Sprintf("the reference parser at revision %d rejects the client stream: %v", neg, sim.Srv.Err))
		return
	}
	if perr != nil || derr != nil || ierr != nil || aerr != nil {
		fail("followup-failed", fmt.Sprintf("Ping=%v Do=%v insert=%v inferred select=%v", perr, derr, ierr, aerr))
		return
	}
	if autoRows != 3 || autoVals != "[0 7 14]" {
		fail("inferred-result-at-negotiated-revision", fmt.Sprintf("a result of 3 rows [0 7 14] read through Results.Auto() at revision %d came back as %d rows %s", neg, autoRows, autoVals))
	}
	// server identity as sent, gated by the client's own revision
	si := client.ServerInfo()
	want := proto.ServerHello{Name: hello.Name, Major: int(hello.Major), Minor: int(hello.Minor), Revision: srev}
	if crev >= ref.RevTimezone {
		want.Timezone = hello.Timezone
	}
	if crev >= ref.RevDisplayName {
		want.DisplayName = hello.DisplayName
	}
	if crev >= ref.RevVersionPatch {
		want.Patch = int(hello.Patch)
	}
	if si != want {
		fail("server-info", fmt.Sprintf("ServerInfo() = %+v, hello sent %+v", si, want))
	}
	// packets
	var kinds []string
	for _, p := range sim.Srv.Packets {
		kinds = append(kinds, p.Kind)
	}
	wantAtReturn := "hello"
	if neg >= ref.RevQuotaKeyAddendum {
		wantAtReturn = "hello addendum"
	}
	if got := strings.Join(atReturn, " "); got != wantAtReturn {
		fail("handshake-incomplete-at-return", fmt.Sprintf("when Connect/Dial returned the server had received [%s], expected [%s] at negotiated revision %d", got, wantAtReturn, neg))
	}
	hasAdd := len(kinds) > 1 && kinds[1] == "addendum"
	if hasAdd != (neg >= ref.RevQuotaKeyAddendum) {
		fail("addendum", fmt.Sprintf("addendum present=%v at negotiated revision %d (packets %v)", hasAdd, neg, kinds))
	}
	h := sim.Srv.Packets[0].Hello
	if h.Database != orDefault(opt.Database, "default") || h.User != orDefault(opt.User, "default") || h.Password != opt.Password || int(h.Revision) != crev || !strings.HasPrefix(h.Name, "clickhouse/ch-go") {
		fail("hello-fields", fmt.Sprintf("client hello %+v, configured user=%q db=%q", *h, opt.User, opt.Database))
	}
	if hasAdd && sim.Srv.Packets[1].QuotaKey != opt.QuotaKey {
		fail("addendum-quota-key", fmt.Sprintf("%q vs %q", sim.Srv.Packets[1].QuotaKey, opt.QuotaKey))
	}
	for _, p := range sim.Srv.Packets {
		if p.Kind == "query" {
			if p.Query.HasInfo != (neg >= ref.RevClientWriteInfo) {
				fail("query-client-info-gating", fmt.Sprintf("client info present=%v at %d", p.Query.HasInfo, neg))
			} else if p.Query.HasInfo && int(p.Query.Info.Revision) != neg {
				fail("query-revision-field", fmt.Sprintf("client info carries revision %d, negotiated %d", p.Query.Info.Revision, neg))
			}
		}
	}
	// decode side at the negotiated revision
	wp := prog
	if neg < ref.RevClientWriteInfo {
		wp.WroteRows, wp.WroteBytes = 0, 0
	}
	if neg < ref.RevServerQueryTime {
		wp.ElapsedNs = 0
	}
	if gotProg == nil {
		fail("progress-not-delivered", "the Progress packet was not delivered")
	} else if (ref.Progress{Rows: gotProg.Rows, Bytes: gotProg.Bytes, TotalRows: gotProg.TotalRows, WroteRows: gotProg.WroteRows, WroteBytes: gotProg.WroteBytes, ElapsedNs: gotProg.ElapsedNs}) != wp {
		fail("progress-decoded-at-wrong-revision", fmt.Sprintf("progress %+v, sent %+v at revision %d", *gotProg, wp, neg))
	}
	if ci%97 == 0 {
		r.Sample(map[string]any{"case": desc, "negotiated": neg, "client_packets": kinds})
	}
}

func c13Failure(r *core.Run, ci int64, rng *rand.Rand, crev, srev int, kind string, cut int, dial bool) {
	opt := c13Opts(rng, crev)
	script := &simnet.Script{Rev: srev}
	sim := newSim(script)
	var chain []ref.Exception
	script.Hello = func(ref.ClientHello) []simnet.Item {
		switch kind {
		case "exception":
			for i := 0; i < 1+rng.Intn(3); i++ {
				chain = append(chain, ref.Exception{Code: int32(rng.Intn(1000)), Name: "DB::Exception", Message: c17Str(rng), Stack: c17Str(rng)})
			}
			return []simnet.Item{{Data: simnet.PacketException(chain)}}
		case "pong":
			return []simnet.Item{{Data: []byte{ref.ServerPongCode}}}
		case "data":
			return []simnet.Item{{Data: simnet.PacketData(crev, ref.ServerDataCode, &ref.Block{}, false, 0)}}
		case "progress":
			return []simnet.Item{{Data: simnet.PacketProgress(crev, ref.Progress{Rows: 1})}}
		case "eos":
			return []simnet.Item{{Data: simnet.PacketEnd()}}
		case "unknown-code":
			return []simnet.Item{{Data: []byte{byte(15 + rng.Intn(100)), 1, 2, 3}}}
		case "garbage":
			b := make([]byte, 1+rng.Intn(40))
			rng.Read(b)
			if b[0] == 0 || b[0] == 2 {
				b[0] = 0xfe
			}
			return []simnet.Item{{Data: b}, {EOF: true}}
		case "eof":
			return []simnet.Item{{EOF: true}}
		case "reset":
			return []simnet.Item{{Reset: true}}
		case "silence":
			return nil
		case "cut":
			b := sim.Srv.ServerHelloBytes(crev)
			end := simnet.Item{EOF: true}
			if rng.Intn(2) == 0 {
				end = simnet.Item{Reset: true}
			}
			return []simnet.Item{{Data: b[:cut]}, end}
		}
		return nil
	}
	if kind == "silence" {
		opt.HandshakeTimeout = 150 * time.Millisecond
		opt.ReadTimeout = 40 * time.Millisecond
	}
	desc := map[string]any{"client_rev": crev, "server_rev": srev, "answer": kind, "cut": cut, "dial": dial}
	r.CaseLog(fmt.Sprintf("%d failure %v", ci, desc))
	r.Eval()
	r.NonTrivial("fail", crev, srev, kind, cut, dial)
	r.SetAdd("failing_answers", kind)
	fail := func(class, msg string) {
		r.Violation(class, fmt.Sprintf("%s [answer %s cut=%d, client rev %d, dial=%v]", msg, kind, cut, crev, dial), desc)
	}
	ctx, cancel := context.WithTimeout(context.Background(), 30*time.Second)
	defer cancel()
	var client *ch.Client
	var err error
	ok := runWithStuckWatchdog(40*time.Second, func() {
		if dial {
			opt.Dialer = &simDialer{mk: func(int) (*simnet.Conn, error) { return sim.Conn, nil }}
			client, err = ch.Dial(ctx, opt)
		} else {
			client, err = ch.Connect(ctx, sim.Conn, opt)
		}
	})
	if !ok {
		r.Violation("handshake-does-not-return:"+kind, fmt.Sprintf("answer %s: the handshake did not return (goroutines: %d library)", kind, len(libraryGoroutines())), desc)
		return
	}
	if err == nil {
		fail("bad-handshake-accepted:"+kind, "the handshake succeeded")
		if client != nil {
			client.Close()
		}
		return
	}
	if client != nil {
		fail("client-returned-with-error", "a non-nil client was returned together with an error")
	}
	if kind == "exception" {
		var ex *ch.Exception
		if !errors.As(err, &ex) {
			fail("exception-not-carried", "errors.As(*ch.Exception) fails on "+err.Error())
		} else if int32(ex.Code) != chain[0].Code || ex.Message != chain[0].Message || len(ex.Next) != len(chain)-1 {
			fail("exception-fields", fmt.Sprintf("%+v vs %+v", *ex, chain))
		}
	}
	if kind == "silence" {
		var ne net.Error
		if !errors.Is(err, context.DeadlineExceeded) && !(errors.As(err, &ne) && ne.Timeout()) {
			fail("silence-error-kind", "error after silence is "+err.Error())
		}
	}
	if dial && !sim.Conn.Closed() {
		fail("dialed-connection-not-closed", fmt.Sprintf("Dial failed (%v) but the connection it opened was not closed", firstLineOf(err.Error())))
	}
	if leaked := leakedLibraryGoroutines(); len(leaked) > 0 {
		fail("goroutine-leak", fmt.Sprintf("%d library goroutines still alive after the failed handshake:\n%s", len(leaked), clipS(leaked[0])))
	}
}
