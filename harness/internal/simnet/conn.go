// Package simnet: an in-memory net.Conn whose peer is a synchronous, scripted server state
// machine fed from inside Write. Every call is recorded with one logical clock.
package simnet

import (
	"errors"
	"io"
	"net"
	"os"
	"sync"
	"sync/atomic"
	"time"
)

// Item is one element of the server->client queue.
type Item struct {
	Data    []byte // bytes to deliver
	Timeout bool   // a virtual read-deadline expiry (consumed only while a read deadline is armed)
	EOF     bool   // the stream ends here (orderly close by the peer)
	Reset   bool   // the stream ends here with a connection reset error
	Gate    string // a named gate: OnGate is called when the reader reaches it (before later items)
	Hold    bool   // with Gate: block the reader until Release(gate) (or Close / deadline)
	Packet  int    // server packet index this item belongs to (for evidence)
	Final   bool   // the packet that ends the response (EndOfStream / terminal exception)
}

// Event is one recorded call on the connection.
type Event struct {
	Seq   int64
	Op    string // write, read, close, set-read-deadline, set-write-deadline, gate
	N     int
	Err   string
	Data  []byte // writes only (copied at call time)
	Armed bool
	After bool // the call happened after Close
	Gate  string
}

// writeSkew: a blocked write whose deadline was derived from a context deadline times out this
// much later than the deadline, so that the context's own timer is always observed first (the
// opposite timer order is not modelled, see DESIGN.md section 6).
const writeSkew = 100 * time.Millisecond

type timeoutErr struct{}

func (timeoutErr) Error() string   { return "i/o timeout" }
func (timeoutErr) Timeout() bool   { return true }
func (timeoutErr) Temporary() bool { return true }
func (timeoutErr) Unwrap() error   { return os.ErrDeadlineExceeded }

type addr string

func (a addr) Network() string { return "sim" }
func (a addr) String() string  { return string(a) }

// Server consumes client bytes and returns what to enqueue.
type Server interface {
	// Feed is called inside Write with the newly written bytes; it returns queue items.
	Feed(p []byte) []Item
}

type Conn struct {
	mu   sync.Mutex
	cond *sync.Cond

	queue  []Item
	qoff   int // offset into queue[0].Data
	closed bool

	finalStarted   bool
	writersBlocked int
	wTimedOut      bool
	rArmed         bool
	rDL            time.Time
	wArmed         bool
	wDL            time.Time

	Srv Server
	// Seg decides how many bytes (1..avail) a Read may return; nil = as many as fit.
	Seg func(avail, want int) int
	// WriteFailAfter: fail client writes once this many bytes were accepted in total (<0: never).
	WriteFailAfter int64
	WriteErr       error
	// OnClose is called once (without the lock) when the connection is first closed.
	OnClose func()
	// NoCoalesce: deliver at most one queued item per Read (the default is to hand out bytes
	// that are queued back to back together, like a socket).
	NoCoalesce bool
	// CloseDelay makes Close take that long before the connection counts as closed.
	CloseDelay time.Duration
	// CloseErr is returned by the first Close (the connection is closed all the same).
	CloseErr error
	// OnGate is called (without the lock) at gates: "write:before:<i>", "write:after:<i>", item gates.
	OnGate func(gate string)

	released       map[string]bool
	written        int64
	nWrites        int
	clock          atomic.Int64
	events         []Event
	blockedReaders int
	ID             int

	// ReadCutAfter >= 0: after this many delivered bytes the stream ends (EOF, or reset when ReadCutReset).
	ReadCutAfter int64
	ReadCutReset bool
	// ReadCutDeadWrites: once a reader has been told about the reset, writes fail as well (a
	// connection reset by the peer is dead in both directions).
	ReadCutDeadWrites bool
	ReadCutStall      bool // at the cut the server just stays silent
	// CorruptAt >= 0: XOR the server byte at this stream offset with CorruptMask.
	CorruptAt   int64
	CorruptMask byte
	delivered   int64

	// BlockWritesAfter >= 0: the peer stops reading after this many bytes: Write blocks
	// (until Close or an armed write deadline expires - virtual: fails at once with a timeout when armed).
	BlockWritesAfter int64
}

func New(srv Server) *Conn {
	c := &Conn{Srv: srv, WriteFailAfter: -1, BlockWritesAfter: -1, ReadCutAfter: -1, CorruptAt: -1, released: map[string]bool{}}
	c.cond = sync.NewCond(&c.mu)
	return c
}

func (c *Conn) rec(e Event) {
	e.Seq = c.clock.Add(1)
	e.After = c.closed && e.Op != "close"
	c.events = append(c.events, e)
}

func (c *Conn) Events() []Event {
	c.mu.Lock()
	defer c.mu.Unlock()
	return append([]Event(nil), c.events...)
}

// Written returns all client bytes in order, and per-call chunks.
func (c *Conn) Written() (all []byte, calls [][]byte) {
	c.mu.Lock()
	defer c.mu.Unlock()
	for _, e := range c.events {
		if e.Op == "write" && e.N > 0 {
			all = append(all, e.Data[:e.N]...)
			calls = append(calls, e.Data[:e.N])
		}
	}
	return
}

func (c *Conn) Closed() bool { c.mu.Lock(); defer c.mu.Unlock(); return c.closed }

// CallsAfterClose counts method calls made after Close (excluding the Close itself).
func (c *Conn) CallsAfterClose() int {
	c.mu.Lock()
	defer c.mu.Unlock()
	n := 0
	for _, e := range c.events {
		if e.After {
			n++
		}
	}
	return n
}

func (c *Conn) CloseCalls() int {
	c.mu.Lock()
	defer c.mu.Unlock()
	n := 0
	for _, e := range c.events {
		if e.Op == "close" {
			n++
		}
	}
	return n
}

// Push appends items to the server->client queue (used by scripts reacting outside Write).
func (c *Conn) Push(items ...Item) {
	c.mu.Lock()
	c.queue = append(c.queue, items...)
	c.mu.Unlock()
	c.cond.Broadcast()
}

// QueueLen reports queued, undelivered items.
func (c *Conn) QueueLen() int {
	c.mu.Lock()
	defer c.mu.Unlock()
	if c.ReadCutStall && c.ReadCutAfter >= 0 && c.delivered >= c.ReadCutAfter {
		return 0 // the server is silent from here on
	}
	return len(c.queue)
}

// DropQueuedAfterCurrent removes every queued item except a partially delivered one.
func (c *Conn) DropQueuedAfterCurrent() {
	c.mu.Lock()
	if len(c.queue) > 0 && c.qoff > 0 {
		c.queue = c.queue[:1]
	} else {
		c.queue = nil
	}
	c.mu.Unlock()
}

// PushFront inserts items before everything queued (but after a partially delivered item).
func (c *Conn) PushFront(items ...Item) {
	c.mu.Lock()
	if len(c.queue) > 0 && c.qoff > 0 {
		rest := append([]Item(nil), c.queue[1:]...)
		c.queue = append(append(c.queue[:1:1], items...), rest...)
	} else {
		c.queue = append(append([]Item(nil), items...), c.queue...)
	}
	c.mu.Unlock()
	c.cond.Broadcast()
}

// UnblockWrites: the peer resumes reading; writes blocked by BlockWritesAfter complete.
func (c *Conn) UnblockWrites() {
	c.mu.Lock()
	c.BlockWritesAfter = -1
	c.mu.Unlock()
	c.cond.Broadcast()
}

// FinalStarted: has the first byte of the response's final packet been handed to the client?
func (c *Conn) FinalStarted() bool { c.mu.Lock(); defer c.mu.Unlock(); return c.finalStarted }

// Delivered returns the number of server bytes handed to the client so far.
func (c *Conn) Delivered() int64 { c.mu.Lock(); defer c.mu.Unlock(); return c.delivered }

// WrittenBytes returns the number of client bytes accepted so far.
func (c *Conn) WrittenBytes() int64 { c.mu.Lock(); defer c.mu.Unlock(); return c.written }

// Locked runs f while holding the connection lock (the lock under which the server is fed).
func (c *Conn) Locked(f func()) { c.mu.Lock(); f(); c.mu.Unlock() }

// Release opens a held gate.
func (c *Conn) Release(gate string) {
	c.mu.Lock()
	c.released[gate] = true
	c.mu.Unlock()
	c.cond.Broadcast()
}

// BlockedReaders reports how many Read calls are currently blocked, and whether a deadline is armed.
func (c *Conn) BlockedReaders() (n int, armed bool) {
	c.mu.Lock()
	defer c.mu.Unlock()
	return c.blockedReaders, c.rArmed
}

func (c *Conn) gate(g string) {
	if c.OnGate != nil {
		c.OnGate(g)
	}
}

func (c *Conn) Read(p []byte) (int, error) {
	c.mu.Lock()
	for {
		if c.closed {
			c.rec(Event{Op: "read", Err: "closed"})
			c.mu.Unlock()
			return 0, &net.OpError{Op: "read", Net: "sim", Err: net.ErrClosed}
		}
		if len(c.queue) > 0 {
			it := &c.queue[0]
			switch {
			case it.Gate != "":
				g := it.Gate
				if it.Hold && !c.released[g] {
					// announce once, then wait
					if !c.released["announced:"+g] {
						c.released["announced:"+g] = true
						c.rec(Event{Op: "gate", Gate: g, N: int(c.delivered)})
						c.mu.Unlock()
						c.gate(g)
						c.mu.Lock()
						continue
					}
					if c.rArmed && !c.rDL.IsZero() && !time.Now().Before(c.rDL) {
						c.rec(Event{Op: "read", Err: "timeout"})
						c.mu.Unlock()
						return 0, &net.OpError{Op: "read", Net: "sim", Err: timeoutErr{}}
					}
					c.waitRead()
					continue
				}
				c.queue = c.queue[1:]
				if !it.Hold {
					c.rec(Event{Op: "gate", Gate: g, N: int(c.delivered)})
					c.mu.Unlock()
					c.gate(g)
					c.mu.Lock()
				}
				continue
			case it.Timeout:
				if c.rArmed {
					c.queue = c.queue[1:]
					c.rec(Event{Op: "read", Err: "timeout"})
					c.mu.Unlock()
					time.Sleep(200 * time.Microsecond)
					return 0, &net.OpError{Op: "read", Net: "sim", Err: timeoutErr{}}
				}
				// no deadline armed: the silence just ends
				c.queue = c.queue[1:]
				continue
			case it.EOF:
				c.rec(Event{Op: "read", Err: "EOF"})
				c.mu.Unlock()
				return 0, io.EOF
			case it.Reset:
				c.rec(Event{Op: "read", Err: "reset"})
				c.mu.Unlock()
				return 0, &net.OpError{Op: "read", Net: "sim", Err: errors.New("connection reset by peer")}
			}
			avail := len(it.Data) - c.qoff
			if avail == 0 {
				c.queue = c.queue[1:]
				c.qoff = 0
				continue
			}
			// bytes that are queued back to back arrive together, as on a socket: one Read may
			// return the tail of a packet and the beginning of the next ones
			if !c.NoCoalesce {
				for k := 1; k < len(c.queue) && avail < len(p); k++ {
					nx := &c.queue[k]
					if nx.Gate != "" || nx.Timeout || nx.EOF || nx.Reset {
						break
					}
					avail += len(nx.Data)
				}
			}
			n := avail
			if n > len(p) {
				n = len(p)
			}
			if c.ReadCutAfter >= 0 {
				if left := c.ReadCutAfter - c.delivered; int64(n) > left {
					n = int(left)
				}
				if n <= 0 {
					if c.ReadCutStall {
						if c.rArmed && !c.rDL.IsZero() && !time.Now().Before(c.rDL) {
							c.rec(Event{Op: "read", Err: "timeout"})
							c.mu.Unlock()
							return 0, &net.OpError{Op: "read", Net: "sim", Err: timeoutErr{}}
						}
						c.waitRead()
						continue
					}
					if c.ReadCutReset {
						if c.ReadCutDeadWrites && c.WriteFailAfter < 0 {
							c.WriteFailAfter = c.written
						}
						c.rec(Event{Op: "read", Err: "reset"})
						c.mu.Unlock()
						return 0, &net.OpError{Op: "read", Net: "sim", Err: errors.New("connection reset by peer")}
					}
					c.rec(Event{Op: "read", Err: "EOF"})
					c.mu.Unlock()
					return 0, io.EOF
				}
			}
			if c.Seg != nil {
				if m := c.Seg(avail, len(p)); m >= 1 && m < n {
					n = m
				}
			}
			for done := 0; done < n; {
				it := &c.queue[0]
				if it.Final {
					c.finalStarted = true
				}
				k := copy(p[done:n], it.Data[c.qoff:])
				c.qoff += k
				done += k
				if c.qoff == len(it.Data) {
					c.queue = c.queue[1:]
					c.qoff = 0
				}
			}
			if c.CorruptAt >= c.delivered && c.CorruptAt < c.delivered+int64(n) {
				p[c.CorruptAt-c.delivered] ^= c.CorruptMask
			}
			c.delivered += int64(n)
			c.rec(Event{Op: "read", N: n})
			c.mu.Unlock()
			return n, nil
		}
		// nothing queued: real deadline semantics
		if c.rArmed && !c.rDL.IsZero() && !time.Now().Before(c.rDL) {
			c.rec(Event{Op: "read", Err: "timeout"})
			c.mu.Unlock()
			return 0, &net.OpError{Op: "read", Net: "sim", Err: timeoutErr{}}
		}
		c.waitRead()
	}
}

// waitRead blocks (lock held) until something changes or the armed deadline passes.
func (c *Conn) waitRead() {
	c.blockedReaders++
	var t *time.Timer
	if c.rArmed && !c.rDL.IsZero() {
		d := time.Until(c.rDL)
		if d < 0 {
			d = 0
		}
		t = time.AfterFunc(d, func() { c.cond.Broadcast() })
	}
	c.cond.Wait()
	if t != nil {
		t.Stop()
	}
	c.blockedReaders--
}

func (c *Conn) Write(p []byte) (int, error) {
	c.mu.Lock()
	if c.closed {
		c.rec(Event{Op: "write", Err: "closed", Data: append([]byte(nil), p...)})
		c.mu.Unlock()
		return 0, &net.OpError{Op: "write", Net: "sim", Err: net.ErrClosed}
	}
	i := c.nWrites
	c.nWrites++
	c.mu.Unlock()
	c.gate("write:before:" + itoa(i))
	c.mu.Lock()
	if c.closed {
		c.rec(Event{Op: "write", Err: "closed", Data: append([]byte(nil), p...)})
		c.mu.Unlock()
		return 0, &net.OpError{Op: "write", Net: "sim", Err: net.ErrClosed}
	}
	n := len(p)
	var err error
	if c.WriteFailAfter >= 0 && c.written+int64(n) > c.WriteFailAfter {
		n = int(c.WriteFailAfter - c.written)
		if n < 0 {
			n = 0
		}
		err = c.WriteErr
		if err == nil {
			err = &net.OpError{Op: "write", Net: "sim", Err: errors.New("broken pipe")}
		}
	}
	if c.BlockWritesAfter >= 0 && c.written+int64(n) > c.BlockWritesAfter {
		// the peer is not reading: with an armed deadline the write times out, else it blocks until Close
		n = int(c.BlockWritesAfter - c.written)
		if n < 0 {
			n = 0
		}
		c.writersBlocked++
		for !c.closed && c.BlockWritesAfter >= 0 && !c.wTimedOut && !(c.wArmed && !time.Now().Before(c.wDL.Add(writeSkew))) {
			var t *time.Timer
			if c.wArmed {
				t = time.AfterFunc(time.Until(c.wDL)+writeSkew+time.Millisecond, func() { c.cond.Broadcast() })
			}
			c.cond.Wait()
			if t != nil {
				t.Stop()
			}
		}
		c.writersBlocked--
		switch {
		case c.closed:
			err = &net.OpError{Op: "write", Net: "sim", Err: net.ErrClosed}
		case c.wTimedOut:
			c.wTimedOut = false
			err = &net.OpError{Op: "write", Net: "sim", Err: timeoutErr{}}
		case c.BlockWritesAfter < 0:
			n = len(p) // the peer reads again: the write completes
		default:
			err = &net.OpError{Op: "write", Net: "sim", Err: timeoutErr{}}
		}
	}
	data := append([]byte(nil), p...)
	c.written += int64(n)
	c.rec(Event{Op: "write", N: n, Data: data, Err: errStr(err)})
	var items []Item
	if c.Srv != nil && n > 0 {
		items = c.Srv.Feed(data[:n])
	}
	c.queue = append(c.queue, items...)
	c.mu.Unlock()
	c.cond.Broadcast()
	c.gate("write:after:" + itoa(i))
	return n, err
}

func errStr(err error) string {
	if err == nil {
		return ""
	}
	return err.Error()
}

func itoa(i int) string {
	if i == 0 {
		return "0"
	}
	var b [20]byte
	p := len(b)
	for i > 0 {
		p--
		b[p] = byte('0' + i%10)
		i /= 10
	}
	return string(b[p:])
}

func (c *Conn) Close() error {
	if c.CloseDelay > 0 {
		time.Sleep(c.CloseDelay) // a transport that takes a moment to go down (TLS close_notify, FIN)
	}
	c.mu.Lock()
	was := c.closed
	c.rec(Event{Op: "close"})
	c.closed = true
	c.mu.Unlock()
	c.cond.Broadcast()
	if !was && c.OnClose != nil {
		c.OnClose()
	}
	if was {
		return &net.OpError{Op: "close", Net: "sim", Err: net.ErrClosed}
	}
	// like tls.Conn, whose Close reports a failed close_notify although the transport is closed
	return c.CloseErr
}

func (c *Conn) LocalAddr() net.Addr  { return addr("sim-local:" + itoa(c.ID)) }
func (c *Conn) RemoteAddr() net.Addr { return addr("sim-remote:" + itoa(c.ID)) }

func (c *Conn) SetDeadline(t time.Time) error {
	_ = c.SetReadDeadline(t)
	return c.SetWriteDeadline(t)
}

func (c *Conn) SetReadDeadline(t time.Time) error {
	c.mu.Lock()
	c.rArmed = !t.IsZero()
	c.rDL = t
	c.rec(Event{Op: "set-read-deadline", Armed: c.rArmed})
	c.mu.Unlock()
	c.cond.Broadcast()
	return nil
}

func (c *Conn) SetWriteDeadline(t time.Time) error {
	c.mu.Lock()
	if c.wArmed && !c.wDL.IsZero() && !time.Now().Before(c.wDL) && c.writersBlocked > 0 {
		// the deadline being replaced has already passed while a write was blocked: on a socket
		// that write has failed at that instant, whatever is armed afterwards
		c.wTimedOut = true
	}
	c.wArmed = !t.IsZero()
	c.wDL = t
	c.rec(Event{Op: "set-write-deadline", Armed: c.wArmed})
	c.mu.Unlock()
	c.cond.Broadcast()
	return nil
}
