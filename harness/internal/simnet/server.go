package simnet

import (
	"errors"
	"fmt"

	"verif/internal/ref"
)

// ClientPacket is one parsed client->server packet.
type ClientPacket struct {
	Kind       string // hello, addendum, query, data, ping, cancel
	Hello      *ref.ClientHello
	QuotaKey   string
	Query      *ref.Query
	Table      string
	Block      *ref.Block
	Compressed bool
	Frames     int // frames that made up this block (must be 1 when compressed)
	FrameMeth  byte
	Start, End int // byte range in the client stream
}

// Script decides what the server answers.
type Script struct {
	Rev int // server revision
	// Hello returns the items sent in answer to the client hello (nil = default ServerHello).
	Hello func(h ref.ClientHello) []Item
	// After the query and its external-data section are complete.
	OnQuery func(q *ref.Query) []Item
	// For every non-empty input block after the query started.
	OnData func(i int, b *ref.Block) []Item
	// When the empty input terminator arrives.
	OnDataEnd func() []Item
	OnPing    func() []Item
	OnCancel  func() []Item
	// Compress: the server compresses Data/Totals/Extremes blocks when the query enabled compression.
}

var errRetry = errors.New("retry")

// ScriptServer is the synchronous server state machine.
type ScriptServer struct {
	S         *Script
	buf       []byte
	consumed  int
	state     int // 0 hello, 1 addendum, 2 idle, 3 external data, 4 input data
	ClientRev int
	Rev       int // negotiated
	Packets   []ClientPacket
	Err       error // first protocol error seen in the client stream
	ErrAt     int
	curQuery  *ref.Query
	nData     int
	Hello     ref.ServerHello
	inQuery   bool
	// Aborted: the script sent an exception for the current query; reactions are suppressed and
	// a new request is accepted at the next packet boundary.
	Aborted bool
	// InputExpected: after OnQuery, the script expects input blocks (INSERT); otherwise the query
	// is complete after the external-data terminator.
	InputExpected func(q *ref.Query) bool
	// trailing bytes that arrived while no request was open are parsed as new requests.
}

func NewScriptServer(s *Script) *ScriptServer {
	return &ScriptServer{S: s, Hello: ref.ServerHello{Name: "SimServer", Major: 24, Minor: 3, Revision: uint64(s.Rev), Timezone: "UTC", DisplayName: "sim", Patch: 7}}
}

// ServerHelloBytes encodes the default hello for a client of revision crev.
func (s *ScriptServer) ServerHelloBytes(crev int) []byte {
	var w ref.W
	s.Hello.Encode(&w, crev)
	return w.B
}

func (s *ScriptServer) fail(err error) {
	if s.Err == nil {
		s.Err = err
		s.ErrAt = s.consumed
	}
}

func min(a, b int) int {
	if a < b {
		return a
	}
	return b
}

func (s *ScriptServer) Feed(p []byte) []Item {
	s.buf = append(s.buf, p...)
	var out []Item
	for s.Err == nil {
		items, n, err := s.step(s.buf)
		if err == errRetry {
			continue
		}
		if errors.Is(err, ref.ErrShort) {
			break
		}
		if err != nil {
			s.fail(err)
			// a real server drops the connection on a protocol error
			out = append(out, Item{EOF: true})
			break
		}
		if n == 0 {
			break
		}
		s.buf = s.buf[n:]
		s.consumed += n
		out = append(out, items...)
	}
	return out
}

// Pending returns unparsed client bytes.
func (s *ScriptServer) Pending() []byte { return s.buf }

func (s *ScriptServer) step(b []byte) ([]Item, int, error) {
	if len(b) == 0 {
		return nil, 0, nil
	}
	r := &ref.R{B: b}
	start := s.consumed
	switch s.state {
	case 0:
		code, err := r.UVarint()
		if err != nil {
			return nil, 0, err
		}
		if code != ref.ClientHelloCode {
			return nil, 0, fmt.Errorf("expected client hello, got packet code %d", code)
		}
		h, err := ref.DecodeClientHello(r)
		if err != nil {
			return nil, 0, err
		}
		s.ClientRev = int(h.Revision)
		s.Rev = min(s.ClientRev, s.S.Rev)
		s.Packets = append(s.Packets, ClientPacket{Kind: "hello", Hello: &h, Start: start, End: start + r.P})
		s.state = 2
		if s.Rev >= ref.RevQuotaKeyAddendum {
			s.state = 1
		}
		var items []Item
		if s.S.Hello != nil {
			items = s.S.Hello(h)
		} else {
			items = []Item{{Data: s.ServerHelloBytes(s.ClientRev)}}
		}
		return items, r.P, nil
	case 1:
		q, err := r.Str()
		if err != nil {
			return nil, 0, err
		}
		s.Packets = append(s.Packets, ClientPacket{Kind: "addendum", QuotaKey: q, Start: start, End: start + r.P})
		s.state = 2
		return nil, r.P, nil
	case 2:
		code, err := r.UVarint()
		if err != nil {
			return nil, 0, err
		}
		switch code {
		case ref.ClientPingCode:
			s.Packets = append(s.Packets, ClientPacket{Kind: "ping", Start: start, End: start + r.P})
			if s.S.OnPing != nil {
				return s.S.OnPing(), r.P, nil
			}
			return []Item{{Data: []byte{ref.ServerPongCode}}}, r.P, nil
		case ref.ClientCancelCode:
			s.Packets = append(s.Packets, ClientPacket{Kind: "cancel", Start: start, End: start + r.P})
			if s.S.OnCancel != nil {
				return s.S.OnCancel(), r.P, nil
			}
			return nil, r.P, nil
		case ref.ClientQueryCode:
			q, err := ref.DecodeQuery(r, s.Rev)
			if err != nil {
				return nil, 0, err
			}
			s.curQuery = &q
			s.nData = 0
			s.Packets = append(s.Packets, ClientPacket{Kind: "query", Query: &q, Start: start, End: start + r.P})
			s.state = 3
			return nil, r.P, nil
		case ref.ClientDataCode:
			return nil, 0, fmt.Errorf("data packet outside of a query")
		default:
			return nil, 0, fmt.Errorf("unknown client packet code %d", code)
		}
	case 3, 4:
		code, err := r.UVarint()
		if err != nil {
			return nil, 0, err
		}
		if s.Aborted && (code == ref.ClientPingCode || code == ref.ClientQueryCode) {
			// the server failed the query: the next request may start at any packet boundary
			s.state = 2
			s.Aborted = false
			return nil, 0, errRetry
		}
		if code == ref.ClientCancelCode {
			s.Packets = append(s.Packets, ClientPacket{Kind: "cancel", Start: start, End: start + r.P})
			s.state = 2
			if s.S.OnCancel != nil {
				return s.S.OnCancel(), r.P, nil
			}
			return nil, r.P, nil
		}
		if code != ref.ClientDataCode {
			return nil, 0, fmt.Errorf("expected a data packet inside the query, got code %d", code)
		}
		pk := ClientPacket{Kind: "data"}
		if s.Rev >= ref.RevTempTables {
			if pk.Table, err = r.Str(); err != nil {
				return nil, 0, err
			}
		}
		var blk *ref.Block
		if s.curQuery.Compression == 1 {
			f, err := ref.ParseFrame(b[r.P:])
			if err != nil {
				return nil, 0, err
			}
			pk.Compressed, pk.Frames, pk.FrameMeth = true, 1, f.Method
			br := &ref.R{B: f.Data}
			blk, err = ref.DecodeBlock(br, s.Rev)
			if errors.Is(err, ref.ErrShort) {
				return nil, 0, fmt.Errorf("compressed frame does not hold one whole block (block needs more than the %d bytes of its frame)", len(f.Data))
			}
			if err != nil {
				return nil, 0, fmt.Errorf("block inside frame: %w", err)
			}
			if br.Left() != 0 {
				return nil, 0, fmt.Errorf("%d bytes left in the frame after the block", br.Left())
			}
			r.P += f.Len
		} else {
			blk, err = ref.DecodeBlock(r, s.Rev)
			if err != nil {
				return nil, 0, err
			}
		}
		pk.Block = blk
		pk.Start, pk.End = start, start+r.P
		s.Packets = append(s.Packets, pk)
		empty := len(blk.Cols) == 0 && blk.Rows == 0
		var items []Item
		if s.state == 3 {
			if empty {
				// end of external data: the query starts executing
				if s.S.OnQuery != nil && !s.Aborted {
					items = s.S.OnQuery(s.curQuery)
				}
				if s.InputExpected != nil && s.InputExpected(s.curQuery) {
					s.state = 4
				} else {
					s.state = 2
				}
			}
			return items, r.P, nil
		}
		if empty {
			if s.S.OnDataEnd != nil && !s.Aborted {
				items = s.S.OnDataEnd()
			}
			s.state = 2
			return items, r.P, nil
		}
		if s.S.OnData != nil && !s.Aborted {
			items = s.S.OnData(s.nData, blk)
		}
		s.nData++
		return items, r.P, nil
	}
	return nil, 0, fmt.Errorf("bad server state")
}

// ---- helpers to build server packets ----

func PacketData(rev int, code byte, b *ref.Block, compressed bool, method byte) []byte {
	var w ref.W
	w.UVarint(uint64(code))
	if rev >= ref.RevTempTables {
		w.Str("")
	}
	var bw ref.W
	if err := ref.EncodeBlock(&bw, rev, b); err != nil {
		panic(err)
	}
	if compressed {
		w.Raw(ref.MakeFrame(method, bw.B))
	} else {
		w.Raw(bw.B)
	}
	return w.B
}

func PacketProgress(rev int, p ref.Progress) []byte {
	var w ref.W
	w.UVarint(ref.ServerProgressCode)
	p.Encode(&w, rev)
	return w.B
}

func PacketProfile(p ref.Profile) []byte {
	var w ref.W
	w.UVarint(ref.ServerProfileCode)
	p.Encode(&w)
	return w.B
}

func PacketException(chain []ref.Exception) []byte {
	var w ref.W
	w.UVarint(ref.ServerExceptionCode)
	ref.EncodeExceptions(&w, chain)
	return w.B
}

func PacketTableColumns(t ref.TableColumns) []byte {
	var w ref.W
	w.UVarint(ref.ServerTableColumnsCode)
	t.Encode(&w)
	return w.B
}

func PacketEnd() []byte { return []byte{ref.ServerEndOfStreamCode} }
