// vcheck: orchestrator and worker of the runtime-monitoring checks.
//
//	vcheck run <ID> <quick|thorough>       parent: spawns shard children, merges, writes evidence
//	vcheck shard <ID> <tier> <i> <n> <out> child: runs one shard in-process
//	vcheck replay <path>                   re-executes the case recorded in a replay file
package main

import (
	"bytes"
	"encoding/json"
	"fmt"
	"os"
	"os/exec"
	"path/filepath"
	"runtime"
	"strconv"
	"strings"
	"sync"
	"syscall"
	"time"

	"verif/internal/core"
	"verif/internal/props"
)

func seed() int64 {
	if v := os.Getenv("VERIF_SEED"); v != "" {
		if n, err := strconv.ParseInt(v, 10, 64); err == nil {
			return n
		}
	}
	return 1
}

func main() {
	if len(os.Args) < 2 {
		fmt.Fprintln(os.Stderr, "usage: vcheck run|shard|replay ...")
		os.Exit(2)
	}
	switch os.Args[1] {
	case "run":
		os.Exit(parent(os.Args[2], os.Args[3], -1))
	case "shard":
		shard(os.Args[2:])
	case "replay":
		b, err := os.ReadFile(os.Args[2])
		if err != nil {
			fmt.Fprintln(os.Stderr, err)
			os.Exit(2)
		}
		var doc struct {
			Property string `json:"property"`
			Tier     string `json:"tier"`
			Seed     int64  `json:"seed"`
			Case     int64  `json:"case"`
		}
		if err := json.Unmarshal(b, &doc); err != nil {
			fmt.Fprintln(os.Stderr, err)
			os.Exit(2)
		}
		os.Setenv("VERIF_SEED", strconv.FormatInt(doc.Seed, 10))
		os.Setenv("VERIF_REPLAY", "1")
		os.Exit(parent(doc.Property, doc.Tier, doc.Case))
	case "builds":
		spec, ok := props.Registry[os.Args[2]]
		if !ok {
			os.Exit(2)
		}
		b := spec.Builds
		if len(b) == 0 {
			b = []string{"default"}
		}
		fmt.Println(strings.Join(b, " "))
	case "list":
		for _, id := range props.IDs() {
			fmt.Println(id)
		}
	default:
		fmt.Fprintln(os.Stderr, "unknown command")
		os.Exit(2)
	}
}

func binFor(build string) string {
	return filepath.Join(core.Root, ".bin", "vcheck-"+build)
}

func parent(id, tier string, only int64) int {
	spec, ok := props.Registry[id]
	if !ok {
		fmt.Fprintf(os.Stderr, "unknown property %s\n", id)
		return 2
	}
	start := time.Now()
	sd := seed()
	work := filepath.Join(core.Root, ".bin", "work", id)
	_ = os.RemoveAll(work)
	_ = os.MkdirAll(work, 0o755)
	if os.Getenv("VERIF_REPLAY") == "" {
		_ = os.Remove(filepath.Join(core.Root, "evidence", id+".json"))
	}
	builds := spec.Builds
	if len(builds) == 0 {
		builds = []string{"default"}
	}
	shards := spec.Shards
	if shards <= 0 {
		shards = runtime.NumCPU()
	}
	if v := os.Getenv("VERIF_SHARDS"); v != "" {
		if n, err := strconv.Atoi(v); err == nil && n > 0 {
			shards = n
		}
	}
	if only >= 0 {
		shards = 1
	}
	type job struct {
		build string
		i     int
	}
	var jobs []job
	for _, b := range builds {
		for i := 0; i < shards; i++ {
			jobs = append(jobs, job{b, i})
		}
	}
	timeout := spec.TimeoutQuick
	if tier == "thorough" {
		timeout = spec.TimeoutThorough
	}
	if timeout == 0 {
		timeout = 20 * time.Minute
		if tier == "thorough" {
			timeout = 90 * time.Minute
		}
	}
	parts := make([]*core.Partial, len(jobs))
	var aborted []core.Violation
	var mu sync.Mutex
	sem := make(chan struct{}, runtime.NumCPU())
	var wg sync.WaitGroup
	for ji, j := range jobs {
		wg.Add(1)
		go func(ji int, j job) {
			defer wg.Done()
			sem <- struct{}{}
			defer func() { <-sem }()
			out := filepath.Join(work, fmt.Sprintf("part-%s-%d.json", j.build, j.i))
			errf := filepath.Join(work, fmt.Sprintf("stderr-%s-%d.txt", j.build, j.i))
			args := []string{"shard", id, tier, strconv.Itoa(j.i), strconv.Itoa(shards), out, j.build, strconv.FormatInt(only, 10)}
			cmd := exec.Command(binFor(j.build), args...)
			ef, _ := os.Create(errf)
			cmd.Stderr = ef
			cmd.Stdout = ef
			cmd.Env = append(os.Environ(),
				"VERIF_SEED="+strconv.FormatInt(sd, 10),
				"VERIF_WORK="+work,
				"GORACE=halt_on_error=0 exitcode=0 log_path="+filepath.Join(work, fmt.Sprintf("race-%s-%d", j.build, j.i)),
				"GOTRACEBACK=all",
			)
			if err := cmd.Start(); err != nil {
				mu.Lock()
				aborted = append(aborted, core.Violation{Key: id + ":harness:cannot-start-worker", What: err.Error()})
				mu.Unlock()
				return
			}
			done := make(chan error, 1)
			go func() { done <- cmd.Wait() }()
			var werr error
			timedOut := false
			select {
			case werr = <-done:
			case <-time.After(timeout):
				timedOut = true
				_ = cmd.Process.Signal(sigQuit)
				select {
				case werr = <-done:
				case <-time.After(10 * time.Second):
					_ = cmd.Process.Kill()
					werr = <-done
				}
			}
			ef.Close()
			b, rerr := os.ReadFile(out)
			var p core.Partial
			if rerr == nil && json.Unmarshal(b, &p) == nil && werr == nil {
				mu.Lock()
				parts[ji] = &p
				mu.Unlock()
				return
			}
			// The worker died (fatal error, os.Exit by runtime, watchdog).
			tail := tailFile(errf, 6000)
			last := lastCase(work, j.build, j.i)
			mu.Lock()
			if timedOut {
				// Wall-clock watchdog alone is inconclusive, never a violation.
				parts[ji] = &core.Partial{Inconcl: 1, Notes: []string{fmt.Sprintf("shard %s/%d hit the %s wall-clock watchdog (inconclusive); last case: %s", j.build, j.i, timeout, last)}}
			} else {
				key := id + ":worker-abort:" + classifyAbort(tail)
				aborted = append(aborted, core.Violation{Key: key,
					What:   fmt.Sprintf("worker process died (%v) while running case %s\n%s", werr, last, tail),
					Replay: map[string]any{"last_case": last, "build": j.build, "shard": j.i, "shards": shards}})
			}
			mu.Unlock()
		}(ji, j)
	}
	wg.Wait()

	meta := core.Meta{ID: id, Tier: tier, Seed: sd, Level: spec.Level, Rule: spec.Rule, Assumptions: spec.Assumptions,
		MinDistinct: spec.MinDistinct, Extra: map[string]any{"builds": builds, "shards": shards}}
	if spec.Exhaustive != nil {
		meta.Exhaustive = spec.Exhaustive(tier)
	}
	if spec.Post != nil {
		v, extra := spec.Post(work, tier, builds, shards)
		aborted = append(aborted, v...)
		for k, x := range extra {
			meta.Extra[k] = x
		}
	}
	if only >= 0 {
		meta.MinDistinct = 0
	}
	meta.Wall = time.Since(start)
	code := core.Finish(meta, parts, aborted)
	if only >= 0 && code == 2 {
		code = 0
	}
	return code
}

func classifyAbort(tail string) string {
	switch {
	case strings.Contains(tail, "checkptr"):
		return "checkptr"
	case strings.Contains(tail, "out of memory") || strings.Contains(tail, "cannot allocate"):
		return "out-of-memory"
	case strings.Contains(tail, "stack overflow") || strings.Contains(tail, "goroutine stack exceeds"):
		return "stack-overflow"
	case strings.Contains(tail, "AddressSanitizer"):
		return "asan"
	case strings.Contains(tail, "concurrent map"):
		return "concurrent-map"
	case strings.Contains(tail, "all goroutines are asleep"):
		return "deadlock"
	case strings.Contains(tail, "panic:"):
		return "panic"
	case strings.Contains(tail, "fatal error"):
		return "fatal"
	}
	return "exit"
}

func tailFile(path string, n int) string {
	b, err := os.ReadFile(path)
	if err != nil {
		return ""
	}
	// Prefer the region around the first "fatal error"/"panic:" line.
	for _, m := range []string{"fatal error", "panic:", "==ERROR"} {
		if i := bytes.Index(b, []byte(m)); i >= 0 {
			e := i + n
			if e > len(b) {
				e = len(b)
			}
			return string(b[i:e])
		}
	}
	if len(b) > n {
		b = b[len(b)-n:]
	}
	return string(b)
}

func lastCase(work, build string, i int) string {
	b, err := os.ReadFile(filepath.Join(work, fmt.Sprintf("caselog-%s-%d.txt", build, i)))
	if err != nil || len(b) == 0 {
		return "(no case log)"
	}
	b = bytes.TrimRight(b, "\n")
	if j := bytes.LastIndexByte(b, '\n'); j >= 0 {
		b = b[j+1:]
	}
	if len(b) > 3000 {
		b = b[:3000]
	}
	return string(b)
}

func shard(a []string) {
	id, tier := a[0], a[1]
	i, _ := strconv.Atoi(a[2])
	n, _ := strconv.Atoi(a[3])
	out := a[4]
	build := a[5]
	only, _ := strconv.ParseInt(a[6], 10, 64)
	spec, ok := props.Registry[id]
	if !ok {
		os.Exit(2)
	}
	if spec.MemLimit > 0 {
		// address-space limit: a runaway allocation fails fast with "out of memory"
		// instead of thrashing the machine
		_ = syscall.Setrlimit(syscall.RLIMIT_AS, &syscall.Rlimit{Cur: spec.MemLimit, Max: spec.MemLimit})
	}
	r := core.NewRun(id, tier, seed(), i, n)
	r.Build = build
	r.Only = only
	r.Work = os.Getenv("VERIF_WORK")
	spec.Fn(r)
	b, _ := json.Marshal(r.Partial())
	if err := os.WriteFile(out, b, 0o644); err != nil {
		fmt.Fprintln(os.Stderr, err)
		os.Exit(3)
	}
}
