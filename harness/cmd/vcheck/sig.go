package main

import "syscall"

var sigQuit = syscall.SIGQUIT
