#!/usr/bin/env bash
# ./run.sh <ID> <quick|thorough>      run the check of one property
# ./run.sh --replay <path>            re-execute the case recorded in a replay file
# ./run.sh --build [variant...]       only (re)build worker binaries
# Rebuilds the worker binaries from /repo's current working tree (hooks on: -tags verif).
set -u
cd "$(dirname "$0")"
ROOT="$(pwd)"
export VERIF_ROOT="$ROOT"
export GOFLAGS=-mod=mod GOPROXY=off GOSUMDB=off GOTOOLCHAIN=local
export CGO_ENABLED=${CGO_ENABLED:-1}
mkdir -p "$ROOT/.bin"

build_variant() {
  local v="$1" out="$ROOT/.bin/vcheck-$1"
  local args=()
  case "$v" in
    default)  args=(-tags verif) ;;
    purego)   args=(-tags verif,purego) ;;
    race)     args=(-tags verif -race) ;;
    checkptr) args=(-tags verif -gcflags=all=-d=checkptr) ;;
    asan)     args=(-tags verif -asan) ;;
    *) echo "unknown build variant $v" >&2; return 2 ;;
  esac
  local modfile=()
  if [ -n "${VERIF_REPO:-}" ] && [ "$VERIF_REPO" != /repo ]; then
    # background sweeps (vp run --with-repo) build against a snapshot of the repository
    sed "s#=> /repo#=> $VERIF_REPO#" "$ROOT/harness/go.mod" > "$ROOT/.bin/alt.mod"
    cp "$ROOT/harness/go.sum" "$ROOT/.bin/alt.sum"
    modfile=(-modfile="$ROOT/.bin/alt.mod")
  fi
  # one build at a time: concurrent checks share the binaries
  (
    if command -v flock >/dev/null 2>&1; then exec 9>"$ROOT/.bin/build.lock"; flock 9; fi
    cd "$ROOT/harness" && go build "${modfile[@]}" "${args[@]}" -o "$out" ./cmd/vcheck 2>"$ROOT/.bin/build-$v.$$.log"
  )
  local rc=$?
  mv -f "$ROOT/.bin/build-$v.$$.log" "$ROOT/.bin/build-$v.log" 2>/dev/null
  if [ $rc -ne 0 ]; then
    echo "BUILD-FAILED variant=$v (see $ROOT/.bin/build-$v.log)" >&2
    tail -n 30 "$ROOT/.bin/build-$v.log" >&2
    return 3
  fi
}

if [ "${1:-}" = "--build" ]; then
  shift
  [ $# -eq 0 ] && set -- default
  for v in "$@"; do build_variant "$v" || exit 3; done
  exit 0
fi

if [ "${1:-}" = "--replay" ]; then
  path="$2"
  id=$(python3 -c "import json,sys;print(json.load(open(sys.argv[1]))['property'])" "$path") || exit 2
  build_variant default || exit 3
  for v in $("$ROOT/.bin/vcheck-default" builds "$id"); do
    [ "$v" = default ] || build_variant "$v" || exit 3
  done
  exec "$ROOT/.bin/vcheck-default" replay "$path"
fi

id="${1:?property id}"
tier="${2:-${VERIF_TIER:-quick}}"
build_variant default || exit 3
for v in $("$ROOT/.bin/vcheck-default" builds "$id"); do
  [ "$v" = default ] || build_variant "$v" || exit 3
done
exec "$ROOT/.bin/vcheck-default" run "$id" "$tier"
