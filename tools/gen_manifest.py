#!/usr/bin/env python3
"""Regenerates /verif/MANIFEST.json from the table below (kept in one place so the
manifest is always valid and in step with the checks that exist)."""
import json, os, subprocess
ROOT = os.path.dirname(os.path.dirname(os.path.abspath(__file__)))
ALL = ["C%02d" % i for i in range(1, 21)]

# id -> (level category, text, level_note, technique, design_ref)
CHECKS = {}
def check(id, cat, text, note, tech, ref):
    CHECKS[id] = dict(cat=cat, text=text, note=note, tech=tech, ref=ref)

exec(open(os.path.join(ROOT, "tools", "checks_table.py")).read())

hooks_commits = []
try:
    out = subprocess.run(["git", "-C", "/repo", "log", "--format=%h %s"], capture_output=True, text=True).stdout
    for line in out.splitlines():
        h, _, subj = line.partition(" ")
        if subj.startswith("verif-hook:"):
            hooks_commits.append(h)
except Exception:
    pass

m = {
    "version": 1,
    "setup_cmd": "./run.sh --build default purego race",
    "hooks": {
        "guard": "verif",
        "enable": "go build -tags verif (run.sh builds every worker binary with -tags verif from /repo's working tree via a replace directive)",
        "baseline_off_cmd": "export GOFLAGS=-mod=mod GOPROXY=off GOSUMDB=off GOTOOLCHAIN=local; for m in . internal/cmd/ch-dl; do (cd /repo/$m && go test -json -vet=off -count=1 -timeout 25m ./...); done",
        "source_commits": hooks_commits,
        "add_only": True,
    },
    "engines": [
        {"name": "vcheck", "path": "harness/cmd/vcheck", "serves_properties": sorted(CHECKS),
         "kind_free_text": "Go harness: runs the real library (built from /repo with -tags verif) under generated, hostile and fault-injected workloads in sharded worker processes; monitors at the boundary (bytes on a simulated connection, callbacks, return values, decoded values, process exit status) plus the Go race detector / checkptr"},
    ],
    "checks": [],
    "not_applicable": [],
    "notes": "See DESIGN.md. known_findings.json lists genuine defects (known / fixed). Replay files are written under /verif/replay/<ID>/.",
}
for id in ALL:
    if id in CHECKS:
        c = CHECKS[id]
        m["checks"].append({
            "property_id": id,
            "quick_cmd": "./run.sh %s quick" % id,
            "thorough_cmd": "./run.sh %s thorough" % id,
            "evidence_file": "/verif/evidence/%s.json" % id,
            "replay_cmd_template": "./run.sh --replay {path}",
            "engine": "vcheck",
            "level_claimed": {"category": c["cat"], "text": c["text"], "design_ref": c["ref"]},
            "level_note": c["note"],
            "technique": c["tech"],
        })
    else:
        m["not_applicable"].append({"property_id": id, "reason": "check not built yet (work in progress; runtime monitoring is applicable, see DESIGN.md section 3)"})
json.dump(m, open(os.path.join(ROOT, "MANIFEST.json"), "w"), indent=1)
print("claimed:", sorted(CHECKS), "unclaimed:", [i for i in ALL if i not in CHECKS])
