#!/usr/bin/env bash
# tools/run_parallel.sh [tier] [jobs] — run every check concurrently (load test: verdicts must not depend on machine load).
cd "$(dirname "$0")/.."
tier="${1:-quick}"; jobs="${2:-20}"
./run.sh --build default purego race checkptr >/dev/null 2>&1
out=$(mktemp -d)
printf '%s\n' C01 C02 C03 C04 C05 C06 C07 C08 C09 C10 C11 C12 C13 C14 C15 C16 C17 C18 C19 C20 |
  xargs -P "$jobs" -I{} bash -c "s=\$(date +%s); ./run.sh {} $tier > $out/{}.log 2>&1; rc=\$?; e=\$(date +%s); echo \"{} rc=\$rc wall=\$((e-s))s :: \$(grep -aE '^C[0-9]+ ' $out/{}.log | tail -1)\"; grep -aE '^(VIOLATION|INCONCLUSIVE|BUILD)' $out/{}.log | cut -c1-300"
rm -rf "$out"
