#!/usr/bin/env python3
"""Runs the repository's suite with the verif tag OFF and compares with /root/.vp/BASELINE.json."""
import json, subprocess, os
env = dict(os.environ, GOFLAGS="-mod=mod", GOPROXY="off", GOSUMDB="off", GOTOOLCHAIN="local")
passed = set(); failed = set()
for m in [".", "internal/cmd/ch-dl"]:
    p = subprocess.run(["go", "test", "-json", "-vet=off", "-count=1", "-timeout", "25m", "./..."], cwd=os.path.join("/repo", m), env=env, capture_output=True, text=True)
    for line in p.stdout.splitlines():
        try:
            e = json.loads(line)
        except Exception:
            continue
        if e.get("Test") and e.get("Action") in ("pass", "fail"):
            (passed if e["Action"] == "pass" else failed).add(e["Package"] + "::" + e["Test"])
base = set(json.load(open("/root/.vp/BASELINE.json"))["stable_pass"])
print("baseline:", len(base), "passed now:", len(passed), "failed now:", len(failed))
print("missing from pass:", sorted(base - passed)[:20])
print("failed:", sorted(failed)[:20])
