#!/usr/bin/env bash
# tools/seed_matrix.sh [name-glob] — run every stored seeded defect against the check of its property
# (quick tier), or against the checks named in meta.json "run_checks" when the defect lies outside
# the package its property is about.
cd /verif
for d in seeded/${1:-*}/; do
  name=$(basename "$d")
  ids=$(python3 -c "import json;m=json.load(open('$d/meta.json'));print(' '.join(m.get('run_checks',[m['property']])))")
  echo "##### seed $name (checks $ids)"
  tools/try_seed.sh "$name" $ids 2>&1 | grep -aE "^(VIOLATION|C[0-9]+ |patch|KNOWN)" | cut -c1-260 | head -6
done
