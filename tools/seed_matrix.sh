#!/usr/bin/env bash
# tools/seed_matrix.sh — run every stored seeded defect against the check of its property (quick tier).
cd /verif
for d in seeded/*/; do
  name=$(basename "$d")
  id=$(python3 -c "import json;print(json.load(open('$d/meta.json'))['property'])")
  echo "##### seed $name (property $id)"
  tools/try_seed.sh "$name" "$id" 2>&1 | grep -aE "^(VIOLATION|C[0-9]+ |patch|KNOWN)" | cut -c1-260 | head -6
done
