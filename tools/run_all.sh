#!/usr/bin/env bash
# tools/run_all.sh [tier] — run every check once, print one line each with wall time.
cd "$(dirname "$0")/.."
tier="${1:-quick}"
for id in C01 C02 C03 C04 C05 C06 C07 C08 C09 C10 C11 C12 C13 C14 C15 C16 C17 C18 C19 C20; do
  s=$(date +%s)
  out=$(./run.sh $id $tier 2>&1); rc=$?
  e=$(date +%s)
  echo "$id rc=$rc wall=$((e-s))s :: $(echo "$out" | grep -aE "^C[0-9]+ " | tail -1)"
  echo "$out" | grep -aE "^(VIOLATION|INCONCLUSIVE|BUILD)" | cut -c1-300
done
