check("C20", "exploration",
      "Runs the real conversion functions over complete finite sub-spaces (every Date, every Date32 day 1900..2299 in fixed zones -12h..+14h, every DateTime second and every IPv4 in the thorough tier) and boundary+random samples of the unbounded ones (DateTime64 p=0..9, wide integers, IPv6, Interval.Add), comparing each result with an independent civil-calendar / big-integer oracle. Held = no disagreement on the values enumerated; the enumerated sub-spaces are exhaustive, the sampled ones are not.",
      "Trusted: Go's time package for constructing inputs (cross-checked against the independent calendar on every day of the range), math/big.",
      "runtime monitoring: exhaustive/sampled execution of the conversions against an independent reference oracle",
      "DESIGN.md 3/C20")
