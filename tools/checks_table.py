check("C20", "exploration",
      "Runs the real conversion functions over complete finite sub-spaces (every Date, every Date32 day 1900..2299 in fixed zones -12h..+14h, every DateTime second and every IPv4 in the thorough tier) and boundary+random samples of the unbounded ones (DateTime64 p=0..9, wide integers, IPv6, Interval.Add), comparing each result with an independent civil-calendar / big-integer oracle. Held = no disagreement on the values enumerated; the enumerated sub-spaces are exhaustive, the sampled ones are not.",
      "Trusted: Go's time package for constructing inputs (cross-checked against the independent calendar on every day of the range), math/big.",
      "runtime monitoring: exhaustive/sampled execution of the conversions against an independent reference oracle",
      "DESIGN.md 3/C20")
check("C01", "exploration",
      "Encodes generated blocks with the real library (typed catalogue of user-facing constructors, boxed random compositions to depth 3, dictionary-size and string-length boundaries, 6 revisions, default and purego builds) through every encoder path, decodes the bytes with an independent reference codec and with the library (typed, boxed, inferred targets) and compares names, types, row counts and values with the model; also byte-independence from the output buffer. Held = no disagreement on the generated cases.",
      "Trusted: the independent reference codec harness/internal/ref (validated by agreeing with the library on thousands of shapes; a disagreement is inspected by hand before being believed), Go reflection for reading typed columns.",
      "runtime monitoring: generated round-trip executions checked against an independent reference decoder (differential oracle), two builds",
      "DESIGN.md 3/C01")
