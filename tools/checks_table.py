check("C20", "exploration",
      "Runs the real conversion functions over complete finite sub-spaces (every Date, every Date32 day 1900..2299 in fixed zones -12h..+14h, every DateTime second and every IPv4 in the thorough tier) and boundary+random samples of the unbounded ones (DateTime64 p=0..9, wide integers, IPv6, Interval.Add), comparing each result with an independent civil-calendar / big-integer oracle. Held = no disagreement on the values enumerated; the enumerated sub-spaces are exhaustive, the sampled ones are not.",
      "Trusted: Go's time package for constructing inputs (cross-checked against the independent calendar on every day of the range), math/big.",
      "runtime monitoring: exhaustive/sampled execution of the conversions against an independent reference oracle",
      "DESIGN.md 3/C20")
check("C01", "exploration",
      "Encodes generated blocks with the real library (typed catalogue of user-facing constructors, boxed random compositions to depth 3, dictionary-size and string-length boundaries, 6 revisions, default and purego builds) through every encoder path, decodes the bytes with an independent reference codec and with the library (typed, boxed, inferred targets) and compares names, types, row counts and values with the model; also byte-independence from the output buffer. Held = no disagreement on the generated cases.",
      "Trusted: the independent reference codec harness/internal/ref (validated by agreeing with the library on thousands of shapes; a disagreement is inspected by hand before being believed), Go reflection for reading typed columns.",
      "runtime monitoring: generated round-trip executions checked against an independent reference decoder (differential oracle), two builds",
      "DESIGN.md 3/C01")
check("C17", "exploration",
      "Encodes every protocol message with the real library for generated field values at every revision of a set containing each feature threshold and both its neighbours (thorough: every revision 50000..54500), compares the bytes with an independent reference encoder (which pins each field to exactly its threshold in both directions), decodes them back with the library (equality + exact consumption) and with the reference decoder. Held = no disagreement on the generated (message, revision) pairs; three library limitations are recorded as known findings.",
      "Trusted: the reference message codec harness/internal/ref/messages.go and its own copy of the protocol thresholds.",
      "runtime monitoring: differential execution of encoders/decoders against an independent reference codec over all revisions",
      "DESIGN.md 3/C17")
check("C14", "exploration",
      "Drives the real proto.Writer with every operation history up to a bounded length (exhaustive) and long random histories, in lock-step with a list model; a recording sink shows exactly which bytes reached the underlying writer per flush, including partial/failing writes; caller memory is poisoned after each flush to expose late reads. Also WriteColumn+Flush == EncodeColumn for every catalogue column. Held = model and sink agree on every history run.",
      "Trusted: the 20-line list model; net.Buffers.WriteTo semantics for plain io.Writers.",
      "runtime monitoring: lock-step model-based execution with a recording sink, exhaustive over bounded histories",
      "DESIGN.md 3/C14")
check("C05", "fault_enumeration",
      "Round-trips generated payloads through the real compress.Writer/Reader (all methods, LZ4HC levels, frame sequences, mixed-method sequences through one reader, reused writers, many read sizes, also through proto.Reader), parses every written frame with an independent frame parser, then alters every byte of sample frames (all offsets x several masks), keeps reading after each error and attributes every byte handed out to a verified frame via position-tagged payloads; oversize headers must be rejected with a bounded allocation delta. Held = no corrupted frame accepted, no unattributable byte, on the faults enumerated.",
      "Trusted: CityHash128 / lz4 / zstd primitives (shared third-party code), runtime/metrics allocation counter.",
      "runtime monitoring: fault injection (byte alteration at every offset) with an online byte-attribution checker",
      "DESIGN.md 3/C05")
check("C07", "fault_enumeration",
      "Takes library-produced encodings (blocks of every catalogue column and random compositions, column first/last/alone, blocks ending inside large strings; every protocol message at threshold-neighbour revisions), cuts them at every position (sampled for long ones), plain and inside each kind of compressed frame, and decodes each proper prefix with typed and inferred targets. Held = every prefix tried was rejected with an error.",
      "Assumes the full encoding decodes with exact consumption (verified per case first).",
      "runtime monitoring: exhaustive truncation-point enumeration over generated encodings",
      "DESIGN.md 3/C07")
check("C15", "exploration",
      "Compiles the same driver with and without -tags purego, runs every two-variant codec over generated raw inputs (exhaustive for 8/16-bit element types and for Bool input bytes), fresh and reset targets, empty and junk-prefixed buffers, EncodeColumn/WriteColumn/DecodeColumn, and aligns the two transcripts (hashes of bytes, values, error classes) by case id in the parent. Held = identical transcripts on all aligned case ids.",
      "Both binaries are built from the same /repo tree; error texts are reduced to classes {nil, short read, bad value}.",
      "runtime monitoring: differential execution of two builds with offline transcript comparison",
      "DESIGN.md 3/C15")
check("C16", "exploration",
      "Drives single column objects through random and exhaustive-short histories of Append/Reset/Prepare/Infer/Encode*/Decode (valid, truncated) and compares, after every step, Rows()/Row(i) and the reference decode of every encoding with a plain list-of-values model; both builds. Held = model and column agree after every step of every history run.",
      "Contract assumptions: Reset precedes every decode; Preparable columns are prepared before encoding; after a failed decode the next operation is Reset.",
      "runtime monitoring: lock-step model-based execution over operation histories",
      "DESIGN.md 3/C16")
check("C19", "exploration",
      "Feeds grammar-generated malformed and well-formed type strings to ColAuto.Infer, every Inferable column's Infer, and ColumnType.Conflicts/Base/Elem: no panic on anything; for well-formed types an inferred column must report a non-conflicting type and decode a reference-encoded block of that type to the reference values; Conflicts is checked for reflexivity, symmetry and agreement with a reference relation over all ordered pairs of a pool (incl. spacing variants). Held = no counterexample among the generated strings and pairs.",
      "Reference relation written from the property statement and proto/column_test.go's table; same-base parameter differences it does not rule on are counted as unspecified and only checked for symmetry/no panic.",
      "runtime monitoring: generated-input execution with a reference relation oracle and reference-encoded decode check",
      "DESIGN.md 3/C19")
check("C18", "exploration",
      "Reference-encodes blocks with per-column unique values and decodes them with the real Results machinery into typed, boxed, single-ResultColumn and AutoResult targets over a pool of ~120 types: equal, permuted, renamed, extra/missing, every type swapped for (a sample of / all) other types, header-only blocks, blank names, multi-block sequences against one bound Results value, inferable targets. A reference compatibility relation decides the expected outcome; after every call each target may hold only its own column's rows (or its unchanged earlier contents). Held = no counterexample among the generated pairs and sequences.",
      "Reference relation as in C19; a clean refusal of a cross-family equivalence (e.g. Int8 data into an inferable enum target) is not judged, since the statement makes compatibility necessary, not sufficient.",
      "runtime monitoring: generated schema/target pairs executed against a reference compatibility oracle with data-ownership checks",
      "DESIGN.md 3/C18")
check("C06", "exploration",
      "Decodes about a million structure-aware mutants of valid library encodings (blocks of every catalogue column, random compositions, reference-encoded LowCardinality with every key width, every protocol message) through typed, boxed and inferred targets in sandboxed worker processes with an address-space limit; monitors: recovered panics keyed by the library frame, worker aborts attributed through a write-ahead case log, a fused reader counting reads after EOF, allocation deltas per decode (flood regime with tag-guarded lower caps; cap regime with the hook inert and fields set just/far beyond the library's caps at known field positions), error rendering, and a row-by-row consistency walk on every successful decode. Held = none of the monitors fired on the inputs tried.",
      "Allocation measured with runtime/metrics; by-design allocations within the library's own caps are not judged (they are avoided in the flood regime by proto.VerifSetCaps, which only adds earlier checks).",
      "runtime monitoring: mutation-based hostile inputs under crash/allocation/consistency monitors in isolated workers",
      "DESIGN.md 3/C06")
check("C02", "exploration",
      "Runs Client.Do of generated queries (settings, parameters, secret, quota keys, span contexts, external data, input columns from the whole catalogue, follow-up inserts on the same connection) against a synchronous scripted server over revision pairs and all compression modes; the recorded client byte stream is parsed by the independent reference codec at the negotiated revision (one checksummed frame per block iff compression) and compared field by field with the caller's inputs; nothing may be left over; parameters on old revisions must be refused before anything is written. Held = every generated execution produced exactly the expected packet sequence.",
      "Trusted: the reference stream parser (simnet + ref). Settings need revision >= 54429 (library limitation, see C17 findings).",
      "runtime monitoring: client byte stream recorded at the connection boundary and checked by a reference parser",
      "DESIGN.md 3/C02")
check("C03", "exploration",
      "Plays seeded reference-encoded server scripts (all handled packet kinds, exception chains, compression, revision pairs, typed/single/auto/no result targets, every subset of callbacks, an optional failing callback) to the real client and compares the recorded callback trace (order, arguments, snapshots of the bound columns taken inside OnResult) and the returned error (errors.As/Is recoverability of the whole exception chain) with an executable model of the receive loop. Held = trace and outcome equal the model on every script.",
      "Trusted: the executable receive-loop model and the reference encoder of the server side.",
      "runtime monitoring: callback/return trace of real executions compared with an executable trace model",
      "DESIGN.md 3/C03")
check("C08", "exploration",
      "Replays the C03 scripts under many segmentations of the server byte stream (one byte per read, two pieces at every offset, random split vectors, all 2^(n-1) splits of short responses, virtual read-deadline expiries between packets), each compared with the model and with whole delivery, followed by a Ping that must find the connection at a packet boundary; plus library encodings (plain / each compressed frame kind) decoded through one-byte, half, data-with-EOF and random-chunk readers with a sentinel byte to check exact consumption. Held = identical outcomes on all segmentations tried.",
      "Only read patterns a conforming io.Reader/net.Conn may produce are used.",
      "runtime monitoring: same executions under perturbed transport segmentation, trace equality oracle",
      "DESIGN.md 3/C08")
check("C09", "exploration",
      "Runs streamed INSERTs with generated OnInput histories (append, reset+append reusing the backing memory, nil, EOF with/without leftover rows, wrapped EOF, error; initial rows or not) over zero-copy and copying column sets and all compression modes; the harness snapshots the columns at the start of each round and the reference codec parses the Data blocks from the bytes copied at Write time: they must be exactly the snapshots in order followed by one terminator (tail rows included, nothing after a callback error). Exhaustive for short histories over a fixed list of column sets, random beyond. Held = wire blocks equal the snapshots for every history run.",
      "Snapshots are taken inside OnInput before mutation; Write calls are recorded by copying.",
      "runtime monitoring: wire blocks recorded at the connection boundary compared with per-round snapshots",
      "DESIGN.md 3/C09")
check("C13", "fault_enumeration",
      "Performs real handshakes (Connect and Dial) over simulated connections for client/server revision pairs at every feature-threshold neighbour and for every failing answer kind (exception, wrong packets, garbage, hello cut after every byte with EOF/reset, immediate EOF, silence until a short handshake timeout, hello delayed by read-deadline expiries). After success a follow-up Ping and query are parsed by the reference codec at min(c,s) and a Progress packet encoded at min(c,s) must decode exactly; ServerInfo, addendum and hello fields are compared; after failure: error (carrying the exception), nil client, dialed connection closed, no library goroutine left. Held = all configurations and fault points tried behaved so.",
      "Short real handshake timeouts are used only to reach the timeout path; verdicts never depend on elapsed time.",
      "runtime monitoring: fault-injected handshakes with boundary recording and goroutine-leak detection",
      "DESIGN.md 3/C13")
check("C04", "fault_enumeration",
      "For ten query scenarios a fault-free pilot run yields the gate trace (client writes, server packets, callbacks, internal hook points); then every fault point is replayed: server stream cut (EOF/reset) and altered at every byte (sampled for long streams), client write error at every byte, every callback failing, an exception injected at every gate, unknown and unexpected packets before every server packet, exception plus write error; receiver-side failures are repeated to vary the goroutine interleaving. After Do returns the post-state is probed at the connection boundary: closed (then further calls return ErrClosed without touching the connection) or open with the client stream at a packet boundary, a follow-up Ping writing exactly 04 and completing. Held = every fault plan ended in one of the two allowed post-states and Do returned; one known finding (no deadline inside a packet body).",
      "Finite read timeout (100 ms); exceptions injected at packet boundaries of the server stream with nothing after them; wall-clock watchdogs only end runs, a hang is reported only with stuck-state evidence (reader blocked without deadline).",
      "runtime monitoring: exhaustive fault-point enumeration with post-state probes at the connection boundary",
      "DESIGN.md 3/C04")
check("C10", "fault_enumeration",
      "For each scenario the caller's context is cancelled at every gate of the pilot trace (client writes, server packets, callbacks, hook points), before the call, during server silence in the middle of a packet (sampled byte offsets), while the peer has stopped reading, and during the handshake (silent or partial hello, cancel and deadline). Monitors at the boundary: return value matches the context error, Cancel packet is the single byte 03 in its own write, Close exactly once, connection closed, goroutine dump shows no library goroutine left; a non-returning call is reported with stuck-state evidence (reader blocked, no deadline, nothing queued). Held = all cancellation points tried ended correctly.",
      "Wall-clock only bounds runs (watchdog 10 s); 'promptly' is judged by stuck-state evidence, elapsed times are reported as inconclusive notes.",
      "runtime monitoring: cancellation injected at every enumerated gate with boundary recording and leak detection",
      "DESIGN.md 3/C10")
check("C11", "exploration",
      "Runs many short multi-goroutine histories against a real chpool.Pool over simulated connections (race build): Acquire / queries that succeed, fail with an exception, lose the connection or are cancelled / Release once, twice or through a stale handle / Pool.Do / Pool.Ping / Close, in five configuration classes (pure locking, destroy-on-release, idle reaping judged in completed health passes through a hook, slow idle reaping, mixed lifetimes). The event log recorded at the boundary (client-side call/return stamps from one logical clock, server-side per-connection request log with unique session ids, dial/close log) is checked offline: contiguous session blocks per connection, porcupine linearizability against a lock-per-connection model, open connections <= MaxConns at every dial, no session on a connection that had to be destroyed, no panic, idle reaping within the pass bound, everything closed after Close. Held = all checkers silent on all histories; porcupine timeouts are inconclusive.",
      "The harness never uses a handle after releasing it. porcupine v1.3.0.",
      "runtime monitoring: recorded concurrent histories checked offline (linearizability with porcupine, ordering and conservation checkers)",
      "DESIGN.md 3/C11")
check("C12", "exploration",
      "Executes the query scenarios (with OpenTelemetry instrumentation on and off; streamed inserts while progress and profile events arrive; cancel, foreign Close, exception and callback failure injected at every gate) and shared-pool histories in a -race build under GOMAXPROCS 2/4/16, repeated; the race detector's log files are parsed in the parent, deduplicated by stack signature and attributed to the library or the harness by the first owning frame of each access. Held = no report with a library-owned access on the interleavings observed (their number is reported as distinct hook-order signatures).",
      "A clean run is 'no race reported on the observed interleavings', not race freedom.",
      "runtime monitoring: Go race detector (ThreadSanitizer) over fault-injected concurrent workloads",
      "DESIGN.md 3/C12")
