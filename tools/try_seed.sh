#!/usr/bin/env bash
# tools/try_seed.sh <seed-name> <ID> [ID...] — apply a seeded defect to /repo, run the quick checks, undo.
set -u
name="$1"; shift
cd /verif
if ! git -C /repo diff --quiet; then echo "/repo has uncommitted changes"; exit 2; fi
P=/verif/seeded/$name/patch.diff; [ -f /verif/seeded/$name/patch_current.diff ] && P=/verif/seeded/$name/patch_current.diff; git -C /repo apply "$P" 2>/dev/null || git -C /repo apply --3way "$P" 2>/dev/null || { echo "patch does not apply"; git -C /repo reset -q --hard HEAD; exit 2; }
for id in "$@"; do
  echo "=== seed $name vs $id"
  ./run.sh "$id" quick 2>&1 | grep -aE "^(VIOLATION|KNOWN|C[0-9]+ |INCONCL|BUILD)" | cut -c1-400 | head -8
done
git -C /repo reset -q --hard HEAD
git -C /repo status --short | grep -v 'ch-dl/dl' | head
