#!/usr/bin/env bash
# tools/verify_seed.sh <ID> [name]  — confirm a sub-agent's seeded defect in its scratch worktree
# /tmp/mut/<ID>: baseline suite passes with the patch, demo fails with it and passes without it.
# On success stores it as /verif/seeded/<name>/ (patch.diff, demo_test.go, notes.md, meta.json).
set -u
export GOFLAGS=-mod=mod GOPROXY=off GOSUMDB=off GOTOOLCHAIN=local
id="$1"; name="${2:-$1}"; wt="${MUTDIR:-/tmp/mut}/$name"; out="$wt/out"
[ -f "$out/patch.diff" ] || { echo "no patch for $name"; exit 2; }
demo_path=$(head -n 3 "$out/demo_test.go" | grep -oE '[A-Za-z0-9_/.-]*zz_[A-Za-z0-9_]*_test\.go' | head -n1 | sed "s,^/*,,")
[ -n "$demo_path" ] || demo_path="zz_demo_test.go"
pkg="./$(dirname "$demo_path")"
runpat=$(grep -oE 'func (Test[A-Za-z0-9_]+)' "$out/demo_test.go" | awk '{print $2}' | paste -sd'|')
extra=""
head -n 5 "$out/demo_test.go" | grep -q -- '-tags purego' && extra="$extra -tags purego"
head -n 5 "$out/demo_test.go" | grep -q -- '-race' && extra="$extra -race"
cd "$wt" || exit 2
git checkout -q -- . ; git clean -fdq -e out
log="$out/verify.log"; : > "$log"
# 1. without the patch the demo passes
cp "$out/demo_test.go" "$demo_path"
go test $extra -vet=off -count=1 -run "^($runpat)\$" "$pkg" >>"$log" 2>&1; clean_rc=$?
# 2. with the patch the demo fails
git apply "$out/patch.diff" || { echo "patch does not apply"; exit 2; }
go test $extra -vet=off -count=1 -run "^($runpat)\$" "$pkg" >>"$log" 2>&1; mut_rc=$?
# 3. with the patch (and without the demo) the existing suite passes
rm -f "$demo_path"
go test -vet=off -count=1 -timeout 25m $(go list ./... | grep -v '/out$') >>"$log" 2>&1; suite_rc=$?
echo "$name: demo clean rc=$clean_rc (want 0), demo mutated rc=$mut_rc (want !=0), suite with patch rc=$suite_rc (want 0)"
if [ $clean_rc -eq 0 ] && [ $mut_rc -ne 0 ] && [ $suite_rc -eq 0 ]; then
  d="/verif/seeded/${SEEDNAME:-$name}"; mkdir -p "$d"
  cp "$out/patch.diff" "$out/demo_test.go" "$d/"; [ -f "$out/notes.md" ] && cp "$out/notes.md" "$d/"
  EXTRA="$extra" python3 - "$d" "$id" "$demo_path" "$runpat" <<'PY'
import json,sys,os
d,id,demo,pat=sys.argv[1:5]
notes=open(os.path.join(d,'notes.md')).read() if os.path.exists(os.path.join(d,'notes.md')) else ''
json.dump({"property":id,"demo_path":demo,"demo_run":"go test%s -vet=off -count=1 -run '^(%s)$' ./%s"%(os.environ.get('EXTRA',''),pat,os.path.dirname(demo) or '.'),
 "confirmed":{"demo_on_unmodified_tree":"PASS","demo_with_patch":"FAIL","existing_suite_with_patch":"PASS"},
 "needs_to_manifest":"see notes.md","base_commit":os.popen("git rev-parse --short HEAD").read().strip(),
 "detected_by":"(filled in after running the checks)"},open(os.path.join(d,'meta.json'),'w'),indent=1)
PY
  echo "stored $d"
else
  echo "REJECTED $name (see $log)"
fi
git checkout -q -- . ; git clean -fdq -e out
